#!/bin/sh
# tools/finalize.sh: run every quick check once, in sequence, on the unchanged /repo and leave fresh evidence/*.json
cd "$(dirname "$0")/.." || exit 2
./setup.sh > /dev/null || exit 2
fail=0
for i in 01 02 03 04 05 06 07 08 09 10 11 12 13 14 15 16 17 18 19 20; do
  out=$(./check C$i --tier quick 2>&1); rc=$?
  echo "$out" | grep -v '^  ' | tail -3 | cut -c1-220
  [ $rc -ne 0 ] && { echo "C$i rc=$rc"; fail=1; }
done
exit $fail

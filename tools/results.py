#!/usr/bin/env python3
"""Regenerate seeded/RESULTS.md from seeded/first_run.json (result when the change arrived) and the newest sweep outputs
given on the command line (result now).   tools/results.py seeded/sweep_final_*.out"""
import json
import os
import re
import sys

ROOT = os.path.dirname(os.path.dirname(os.path.abspath(__file__)))
PAT = re.compile(r'((?:C\d\d|own)-[A-Za-z0-9-]+) check=(\S+) rc=(\d+) violations=(\d+)\s*(?:clause=(\S+))?')


def read(path):
    out = {}
    text = open(path, errors='replace').read()
    for m in PAT.finditer(text):
        out[m.group(1)] = {'check': m.group(2), 'rc': int(m.group(3)), 'n': int(m.group(4)), 'clause': m.group(5) or ''}
    for m in re.finditer(r'(\S+) APPLY-FAILED', text):
        out[m.group(1)] = {'check': '', 'rc': -1, 'n': 0, 'clause': ''}
    return out


def main():
    first = json.load(open(os.path.join(ROOT, 'seeded', 'first_run.json')))
    now = {}
    for p in sys.argv[1:]:
        now.update(read(p))
    ids = sorted(d for d in os.listdir(os.path.join(ROOT, 'seeded')) if os.path.isdir(os.path.join(ROOT, 'seeded', d)))
    rows = []
    stats = {}
    for sid in ids:
        meta = json.load(open(os.path.join(ROOT, 'seeded', sid, 'meta.json')))
        what = str(meta.get('summary') or meta.get('what') or meta.get('description') or '')[:170].replace('|', '/').replace('\n', ' ')
        prop = meta.get('breaks') or sid.split('-')[0]
        r = now.get(sid)
        if meta.get('neutralised'):
            r = None
            cur = 'neutralised by a later repair (see meta.json)'
        elif r is None:
            cur = 'not swept'
        elif r['rc'] == 1:
            cur = 'CAUGHT (%d violations)' % r['n']
        elif r['rc'] == -1:
            cur = 'patch does not apply'
        elif r['rc'] == 0:
            cur = 'missed'
        else:
            cur = 'machinery failure (rc=%d)' % r['rc']
        wave = 'unfix' if '-unfix-' in sid else 'own' if sid.startswith('own') else 'r4' if '-r4m' in sid else 'r3' if '-r3m' in sid else 'r2' if '-r2m' in sid else 'r1'
        if meta.get('neutralised'):
            rows.append('| %s | %s | %s | %s | %s | %s |' % (sid, what, prop, first.get(sid, '-'), cur, ''))
            continue
        st = stats.setdefault(wave, [0, 0, 0])
        st[0] += 1
        st[1] += 1 if str(first.get(sid, '')).startswith('CAUGHT') else 0
        st[2] += 1 if cur.startswith('CAUGHT') else 0
        rows.append('| %s | %s | %s | %s | %s | %s |' % (sid, what, prop, first.get(sid, '-'), cur, (r or {}).get('clause', '')))
    head = open(os.path.join(ROOT, 'seeded', 'RESULTS.head.md')).read()
    with open(os.path.join(ROOT, 'seeded', 'RESULTS.md'), 'w') as f:
        f.write(head)
        f.write('\n| wave | changes | caught when they arrived | caught now |\n|---|---|---|---|\n')
        for w in ('r1', 'r2', 'r3', 'r4', 'own', 'unfix'):
            if w in stats:
                f.write('| %s | %d | %s | %d |\n' % (w, stats[w][0], stats[w][1] if w not in ('unfix',) else '-', stats[w][2]))
        f.write('\n| change | what it does | check | first run | now | first failing clause |\n|---|---|---|---|---|---|\n')
        f.write('\n'.join(rows) + '\n')
        tail = os.path.join(ROOT, 'seeded', 'RESULTS.tail.md')
        if os.path.exists(tail):
            f.write('\n' + open(tail).read())
    print(json.dumps(stats))


if __name__ == '__main__':
    main()

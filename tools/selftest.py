#!/venv/bin/python
"""Self-test of the machinery (DESIGN.md section 5, "demonstrating the binding"):
 1. vacuity: TLC -coverage on the machine models; every sub-action of the reader machine must have been taken;
 2. binding: corrupt ONE field of a recorded observation / trace and expect the trace specs to reject it.
Writes selftest.json; exit 0 iff everything behaved as expected."""
import copy
import json
import os
import re
import random
import sys

ROOT = os.path.dirname(os.path.dirname(os.path.abspath(__file__)))
sys.path.insert(0, ROOT)
sys.path.insert(0, os.environ.get('VERIF_REPO', '/repo'))
from harness import core, tlc, strings as S, obs, edits as E      # noqa
from harness.props import c18, c20, c04                              # noqa

out = {'coverage': {}, 'binding': {}}
ok = True
chk = core.Check('SELFTEST', 'quick', 0)

# ---- 1. coverage of the Strings / machine model ---------------------------------------------------------------
d = tlc.workdir('selftest_cov')
S.mc_strings(d, 'MC', [(S.ST, 2), (S.SUB['env'], 3), (S.SUB['item'], 3), (S.SUB['verb'], 3), (S.SUB['sig'], 3), (S.SUB['ign'], 2)], (), S.ALL_INV, dump=False,
             sources=['\\begin{a}\\x{' * 6 + 'y' + '}\\end{a}' * 6])
res = tlc.run(d, 'MC', timeout=1800, coverage=True)
text = '\n'.join(res.lines)
acts = {}
for m in re.finditer(r'^<(\w+) line (\d+), col (\d+) to line (\d+), col (\d+) of module (\w+)>: (\d+):(\d+)', text, re.M):
    acts['%s@%s' % (m.group(1), m.group(6))] = [int(m.group(7)), int(m.group(8))]
out['coverage']['actions'] = acts
never = [a for a, (dist, tot) in acts.items() if tot == 0]
out['coverage']['never_taken'] = never
# sub-expressions of the reader with zero evaluations (TLC prints "|line ...: 0" for uncovered expressions)
zero = re.findall(r'^\s*\|+line (\d+), col (\d+) to line (\d+), col (\d+) of module TexMachine: 0\s*$', text, re.M)
out['coverage']['uncovered_TexMachine_expressions'] = len(zero)
out['coverage']['uncovered_lines'] = sorted({int(z[0]) for z in zero})[:60]
if never:
    ok = False

# ---- 2. binding ----------------------------------------------------------------------------------------------------
rng = random.Random(1)


def expect_reject(name, fn):
    global ok
    try:
        rejected, detail = fn()
    except Exception as e:   # noqa
        rejected, detail = False, 'exception %r' % e
    out['binding'][name] = {'rejected': rejected, 'detail': detail}
    if not rejected:
        ok = False


def strings_case():
    ex = obs.experiment('\\begin{e}x\\end{e} \\a{y}')
    good = S.validate(chk, [ex], label='st_good')[0]
    bad = copy.deepcopy(ex)
    bad['A']['out'][3] = 'X'                       # one character of the recorded output
    v = S.validate(chk, [bad], label='st_bad')[0]
    return (not good[1] and not good[2]) and ('C08' in v[1]), {'good': [good[1], good[2]], 'corrupted': [v[1], v[2]]}


def tokens_case():
    ex = obs.experiment('ab {c}')
    bad = copy.deepcopy(ex)
    bad['tokt'][1]['p'] += 1                      # one token offset
    v = S.validate(chk, [bad], label='tk_bad')[0]
    return 'C19' in v[1], {'corrupted': [v[1], v[2]]}


def buffer_case():
    tr = c20.record_walks(rng, [['a', 'b', 'a']], 1, 12)
    bad = copy.deepcopy(tr)
    bad[0]['h'][5]['c'] += 1                      # one cursor value
    c2 = core.Check('SELFTEST', 'quick', 0)
    c20.validate(c2, bad)
    return len(c2.violations) == 1, {'violations': [v['clause'] for v in c2.violations]}


def args_case():
    tr = c18.record_walks(rng, 1, 12)
    bad = copy.deepcopy(tr)
    k = next(i for i, e in enumerate(bad[0]['h']) if e['texts'])
    bad[0]['h'][k]['str'] = bad[0]['h'][k]['str'][:-1]      # serialisation loses one character
    c2 = core.Check('SELFTEST', 'quick', 0)
    c18.validate(c2, bad)
    return len(c2.violations) == 1, {'violations': [v['clause'] for v in c2.violations]}


def edits_case():
    tr = [E.random_history(rng, '\\a{x} b \\a{x} c', 5, E.STRUCT)]
    bad = copy.deepcopy(tr)
    bad[0]['h'][-1]['t'] = bad[0]['h'][-1]['t'] + ['!']       # text after the last step
    c2 = core.Check('SELFTEST', 'quick', 0)
    E.validate(c2, bad, 'C15')
    return len(c2.violations) == 1, {'violations': [v['clause'] for v in c2.violations]}


def views_case():
    v = c04.record_views('\\begin{e} \\a{x} t\\end{e}')
    bad = copy.deepcopy(v)
    bad['nodes'][1]['children'] = bad['nodes'][1]['children'][:-1]     # one child missing from a recorded view
    c2 = core.Check('SELFTEST', 'quick', 0)
    c04.validate(c2, [bad], 'selftest')
    return len(c2.violations) == 1, {'violations': [x['clause'] for x in c2.violations]}


for name, fn in [('StringsTrace: output character', strings_case), ('StringsTrace: token offset', tokens_case),
                 ('BufferTrace: cursor', buffer_case), ('ArgsTrace: serialisation', args_case), ('EditsTrace: text', edits_case),
                 ('ViewsTrace: children view', views_case)]:
    expect_reject(name, fn)

out['ok'] = ok
json.dump(out, open(os.path.join(ROOT, 'selftest.json'), 'w'), indent=1)
print(json.dumps({'ok': ok, 'never_taken': never, 'uncovered_TexMachine_expressions': len(zero), 'binding': {k: v['rejected'] for k, v in out['binding'].items()}}, indent=1))
sys.exit(0 if ok else 1)

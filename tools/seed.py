#!/usr/bin/env python3
"""Confirm seeded mutants and run checks against them.

  tools/seed.py confirm <Cxx> <k>         confirm /tmp/seeds/Cxx/mK.* in a scratch worktree and store under seeded/
  tools/seed.py run <seeded-id> <check>.. apply seeded/<id>/patch.diff to /repo, run checks (quick), revert
"""
import json
import os
import shutil
import subprocess
import sys

ROOT = os.path.dirname(os.path.dirname(os.path.abspath(__file__)))


def sh(cmd, cwd=None, timeout=3600):
    p = subprocess.run(cmd, shell=True, cwd=cwd, stdout=subprocess.PIPE, stderr=subprocess.STDOUT, text=True, timeout=timeout)
    return p.returncode, p.stdout


def confirm(pid, k, base='/tmp/seeds', tag=''):
    src = '%s/%s' % (base, pid)
    diff = '%s/m%s.diff' % (src, k)
    demo = '%s/m%s_demo.py' % (src, k)
    meta = json.load(open('%s/m%s.json' % (src, k)))
    wt = '/tmp/sw_%s_%s' % (pid, k)
    sh('git -C /repo worktree remove --force %s' % wt)
    rc, out = sh('git -C /repo worktree add --detach %s HEAD' % wt)
    assert rc == 0, out
    try:
        rc0, o0 = sh('/venv/bin/python %s' % demo, cwd=wt, timeout=600)
        rc, out = sh('git apply %s' % diff, cwd=wt)
        if rc != 0:
            print('PATCH DOES NOT APPLY', out)
            return False
        rct, ot = sh('/venv/bin/python -m pytest -q -p no:cacheprovider 2>&1 | tail -3', cwd=wt)
        passed = '164 passed' in ot
        rc1, o1 = sh('/venv/bin/python %s' % demo, cwd=wt, timeout=900)
        ok = rc0 == 0 and rc1 == 1 and passed
        print('%s m%s: clean demo rc=%d, mutant demo rc=%d, tests %s -> %s' % (pid, k, rc0, rc1, 'pass' if passed else 'FAIL: ' + ot, 'CONFIRMED' if ok else 'REJECTED'))
        if ok:
            d = os.path.join(ROOT, 'seeded', '%s-%sm%s' % (pid, tag, k))
            os.makedirs(d, exist_ok=True)
            shutil.copy(diff, os.path.join(d, 'patch.diff'))
            shutil.copy(demo, os.path.join(d, 'demo.py'))
            meta.update({'breaks': pid, 'needs_to_manifest': meta.get('needs'), 'confirmed': {
                'clean_demo_rc': rc0, 'mutant_demo_rc': rc1, 'tests': '164 passed with the patch applied',
                'how': 'scratch worktree of /repo HEAD; git apply patch.diff; pytest; demo.py'},
                'demo_output_on_mutant': o1[-600:]})
            json.dump(meta, open(os.path.join(d, 'meta.json'), 'w'), indent=1)
        return ok
    finally:
        sh('git -C /repo worktree remove --force %s' % wt)


def run(sid, checks):
    d = os.path.join(ROOT, 'seeded', sid)
    rc, out = sh('git -C /repo status --porcelain')
    assert out.strip() == '', '/repo not clean: ' + out
    rc, out = sh('git -C /repo apply %s/patch.diff' % d)
    assert rc == 0, out
    res = {}
    try:
        for c in checks:
            rc, out = sh('./check %s --tier quick' % c, cwd=ROOT, timeout=3600)
            viol = [l for l in out.splitlines() if l.startswith('VIOLATION')]
            res[c] = {'rc': rc, 'violations': len(viol), 'tail': out.splitlines()[-1] if out.splitlines() else ''}
            print('%s under %s: rc=%d violations=%d | %s' % (c, sid, rc, len(viol), res[c]['tail'][:160]))
            for l in out.splitlines():
                if l.startswith('  clause='):
                    print('     ', l[:220])
                    break
    finally:
        sh('git -C /repo checkout -- .')
    return res


if __name__ == '__main__':
    if sys.argv[1] == 'confirm':
        confirm(sys.argv[2], sys.argv[3])
    elif sys.argv[1] == 'confirm2':
        confirm(sys.argv[2], sys.argv[3], '/tmp/seeds2', 'r2')
    elif sys.argv[1] == "confirm4":
        confirm(sys.argv[2], sys.argv[3], "/tmp/seeds4", "r4")
    elif sys.argv[1] == "confirm3":
        confirm(sys.argv[2], sys.argv[3], '/tmp/seeds3', 'r3')
    else:
        run(sys.argv[2], sys.argv[3:])

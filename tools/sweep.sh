#!/bin/sh
# tools/sweep.sh [ids...]: run every seeded change against the check of the property it breaks, on a scratch copy of /repo
# (never touches /repo).  Writes one line per change to sweep.out in the current directory.
HERE="$(cd "$(dirname "$0")/.." && pwd)"
W=/tmp/sweep_repo_$$
rm -rf "$W"; git -C /repo worktree add --detach "$W" HEAD -q || exit 2
trap 'git -C /repo worktree remove --force "$W"' EXIT
ids="$*"; [ -z "$ids" ] && ids=$(ls "$HERE/seeded" | grep -- '-m')
for id in $ids; do
  prop=$(jq -r '.breaks // empty' "$HERE/seeded/$id/meta.json" 2>/dev/null); [ -z "$prop" ] && prop=${id%%-*}
  git -C "$W" checkout -q -- . && git -C "$W" apply "$HERE/seeded/$id/patch.diff" || { echo "$id APPLY-FAILED" >> sweep.out; continue; }
  out=$(cd "$HERE" && VERIF_NO_EVIDENCE=1 VERIF_REPO="$W" ./check "$prop" --tier quick 2>&1); rc=$?
  n=$(echo "$out" | grep -c '^VIOLATION')
  cl=$(echo "$out" | grep -m1 '^  clause=' | cut -c1-120)
  echo "$id check=$prop rc=$rc violations=$n $cl" >> sweep.out
done
git -C "$W" checkout -q -- .

#!/usr/bin/env python3
"""print the source of the last state of a TLC counterexample in <dir>/MCG.out (or the file given)"""
import re, sys
s = open(sys.argv[1]).read()
for var in ('input',):
    i = s.rfind('/\\ %s = <<' % var)
    j = s.find('>>', i)
    atoms = re.findall(r'"((?:\\.|[^"\\])*)"', s[i:j])
    print(repr(''.join(a.encode().decode('unicode_escape') for a in atoms)))

"""Shared machinery for the well-formed-document experiments (DocGen.tla): C01-C04, C09-C13 and the start
documents of C05/C14/C15.  TLC generates every document in scope together with its oracle (the generating
syntax tree with offsets, the expected search results, the expected abstract shape); the harness replays
each document on the real parser."""
import json

from harness import tlc, obs
from harness.tlc import tla_seq as S, from_atoms, to_atoms

DEF_LEAF = ('Cmd(%s, << Grp("{", << Cmd(%s, <<>>) >>, <<>>), Grp("{", << Cmd(%s, << Grp("{", << T(%s) >>, <<>>) >>) >>, <<>>) >>)'
            % (S('newcommand'), S('nm'), S('begin'), S('e')))
DEF_LEAF2 = ('Cmd(%s, << Grp("{", << Cmd(%s, <<>>) >>, <<>>), Grp("[", << T(%s) >>, <<>>), Grp("{", << T(%s), Cmd(%s, << Grp("{", << T(%s) >>, <<>>) >>) >>, <<>>) >>)'
             % (S('renewcommand'), S('nm'), S('1'), S('#1'), S('end'), S('e')))


DEF_LEAF3 = ('Cmd(%s, << Grp("{", << Cmd(%s, <<>>) >>, <<>>), Grp("{", << Cmd(%s, << Grp("{", << Cmd(%s, << Grp("{", << T(%s) >>, <<>>) >>), T(%s), Cmd(%s, << Grp("{", << T(%s) >>, <<>>) >>) >>, <<>>) >>) >>, <<>>) >>)'
             % (S('newcommand'), S('nm'), S('fbox'), S('begin'), S('e'), S('#1'), S('end'), S('e')))


DEF_LEAF4 = ('Cmd(%s, << Grp("{", << Cmd(%s, <<>>) >>, <<>>), Grp("{", << Cmd(%s, << Grp("{", << T(%s) >>, <<>>) >>) >>, <<>>) >>)'
             % (S('providecommand*'), S('nm'), S('begin'), S('e')))


DEF_LEAF5 = ('Cmd(%s, << Grp("{", << Cmd(%s, <<>>) >>, <<>>), Grp("[", << T(%s) >>, <<>>), Grp("{", << Cmd(%s, << Grp("{", << T(%s) >>, <<>>), Grp("[", << T(%s) >>, <<>>) >>) >>, <<>>) >>)'
             % (S('newcommand'), S('nm'), S('1'), S('begin'), S('e'), S('#1')))
DEF_LEAF6 = ('Cmd(%s, << Grp("{", << Cmd(%s, <<>>) >>, <<>>), Grp("{", << Grp("{", << Cmd(%s, << Grp("{", << T(%s) >>, <<>>) >>) >>, <<>>) >>, <<>>) >>)'
             % (S('newcommand'), S('nm'), S('begin'), S('e')))      # \newcommand{\nm}{{\begin{e}}}: the definition mode reaches into a nested brace group
DEF_LEAF7 = ('Cmd(%s, << Grp("{", << Cmd(%s, <<>>) >>, <<>>), Grp("{", << Cmd(%s, <<>>) >>, <<>>) >>)'
             % (S('newcommand'), S('nm'), S('textbf')))       # \newcommand{\nm}{\textbf}: a signature command without argument before the closing brace
DEF_LEAF8 = ('Cmd(%s, << Grp("{", << T(%s) >>, <<>>), Grp("{", << Cmd(%s, << Grp("{", << T(%s) >>, <<>>) >>) >>, <<>>), Grp("{", << Cmd(%s, << Grp("{", << T(%s) >>, <<>>) >>) >>, <<>>) >>)'
             % (S('newenvironment'), S('f'), S('begin'), S('e'), S('end'), S('e')))       # \newenvironment{f}{\begin{e}}{\end{e}}
DEF_LEAVES = [DEF_LEAF, DEF_LEAF2, DEF_LEAF3, DEF_LEAF4, DEF_LEAF5, DEF_LEAF6, DEF_LEAF7, DEF_LEAF8]


def leaf_cmd(name, *groups):
    """a complete command leaf: groups = ('{', 'text') / ('[', 'text')"""
    gs = ', '.join('Grp("%s", << T(%s) >>, <<>>)' % (k, S(t)) for k, t in groups)
    return 'Cmd(%s, << %s >>)' % (S(name), gs)


BASE = {
    'TextPool': ['a', ' ', '\n', '\n\n', 'b c', '(', ', x', ' y ', '[', ']', '\\\\', '\\%', '\\$', 'a\\&b', 'é ü'],
    'MathTextPool': ['x', '+ y', '(', '[', ']', '\\$'],
    'ComPool': ['c', ''],
    'CmdNames': ['a', 'bb'],
    'EnvNames': ['e'],
    'ListNames': ['itemize'],
    'MathKinds': ['$', '$$', '\\(', '\\['],
    'MEnvNames': ['equation'],
    'VerbNames': ['verbatim'],
    'VerbBodies': ['x', ' $ { ', '\n\\a{\n'],
    'Leaves': [DEF_LEAF, 'Cmd(%s, <<>>)' % S('cup'), 'Cmd(%s, <<>>)' % S('left(')],
    'Seps': [''],
    'Labels': ['', 'l'],
    'UserSkipG': [],
    'ExtraQueries': [],
    'DollarAdjacent': False,
    'Budget': 3, 'MaxDepth': 3, 'MaxSib': 3, 'MaxArgs': 3,
}
SETS = ['TextPool', 'MathTextPool', 'ComPool', 'CmdNames', 'EnvNames', 'ListNames', 'MEnvNames', 'VerbNames', 'VerbBodies',
        'Seps', 'Labels', 'UserSkipG', 'ExtraQueries']
INV_ALL = ['C01_RoundTrip', 'C01_Slices', 'C02_Structure', 'C03_Search', 'C13_Positions', 'OutcomeIsDiagnostic', 'StepBound']


TRIM = {'TextPool': 6, 'MathTextPool': 3, 'Leaves': 2, 'VerbBodies': 2, 'MathKinds': 2, 'ComPool': 1}


def mc_docgen(d, name, pools, invariants, dump='GDump'):
    p = dict(BASE)
    p.update(pools)
    if p['Budget'] >= 4 and 'TextPool' not in pools and 'MaxDepth' not in pools:
        # the thorough tier's "one node more" over the standard pools: the pools are cut down so that the run stays in the
        # millions of states (budget 4 over the full pools is tens of millions of states and half an hour per scope)
        for k, n in TRIM.items():
            if k not in pools:
                p[k] = p[k][:n]
    defs, consts = [], []
    for k in SETS:
        defs.append('MC%s == {%s}' % (k, ', '.join(S(w) for w in p[k])))
        consts.append(' %s <- MC%s' % (k, k))
    defs.append('MCMathKinds == {%s}' % ', '.join(tlc.tla_str(m) for m in p['MathKinds']))
    consts.append(' MathKinds <- MCMathKinds')
    defs.append('MCLeaves == {%s}' % ', '.join(p['Leaves']))
    consts.append(' Leaves <- MCLeaves')
    for k in ('Budget', 'MaxDepth', 'MaxSib', 'MaxArgs'):
        consts.append(' %s = %d' % (k, p[k]))
    consts.append(' DollarAdjacent = %s' % ('TRUE' if p['DollarAdjacent'] else 'FALSE'))
    cfg = ['SPECIFICATION GSpec', 'CONSTANTS'] + consts + ['INVARIANT ' + i for i in invariants]
    if dump:
        cfg.append('INVARIANT ' + dump)
    cfg.append('CHECK_DEADLOCK FALSE')
    tlc.write_mc(d, name, 'DocGen', defs, '\n'.join(cfg) + '\n')
    return p


def generate(chk, label, pools, invariants=INV_ALL, timeout=3000, simulate=None, depth=None):
    d = tlc.workdir('%s_%s' % (chk.pid, label))
    p = mc_docgen(d, 'MCG', pools, invariants)
    res = tlc.run(d, 'MCG', timeout=timeout, simulate=simulate, depth=depth, seed=chk.seed if simulate else None)
    chk.add_tlc(label, res, 'DocGen budget=%d depth<=%d siblings<=%d args<=%d%s' % (
        p['Budget'], p['MaxDepth'], p['MaxSib'], p['MaxArgs'], ', simulate' if simulate else ''))
    if res.violated:
        raise tlc.MachineryError('the reference machine violates %s on a generated document (see %s/MCG.out): either a '
                                 'generator guard is too weak or the design has a defect - triage per DESIGN.md section 6'
                                 % (res.violated, d))
    recs = [r for r in res.records if 'nodes' in r]
    seen, out = set(), []
    for r in recs:
        k = ''.join(r['i'])
        if k not in seen:
            seen.add(k)
            out.append(r)
    return out, p


# ---- real side -----------------------------------------------------------------------------------------------
def real_nodes(soup):
    """every TexNode reachable through descendants (incl. the root), and every expression incl. argument groups"""
    from TexSoup.data import TexNode
    nodes = [soup] + [n for n in soup.descendants if isinstance(n, TexNode)]
    return nodes


def all_exprs(expr, out):
    """all non-text expressions of the real tree in document order (arguments before body), like Nodes() in TexTree"""
    from TexSoup.data import TexExpr, TexText
    for a in expr.args:
        if isinstance(a, TexExpr) and not isinstance(a, TexText):
            out.append(a)
            all_exprs(a, out)
    for x in expr._contents:
        if isinstance(x, TexExpr) and not isinstance(x, TexText):
            out.append(x)
            all_exprs(x, out)
    return out


def observe_doc(src, skip=(), tolerance=0):
    """parse + project everything the document properties talk about"""
    from TexSoup import TexSoup
    from TexSoup.data import TexNode, TexText
    from harness import proj

    def run():
        soup = TexSoup(src, skip_envs=tuple(skip), tolerance=tolerance)
        items = soup.expr._contents
        o = {'out': str(soup), 'flat': proj.flat_seq(items), 'abs': proj.abs_flat(items)}
        ex = all_exprs(soup.expr, [])
        o['nodes'] = [[proj.kind_of(e)[0], str(e.position), str(len(str(e)))] for e in ex]
        o['slices'] = [[e.position, str(e)] for e in ex]
        toks = []
        _text_tokens(soup.expr, toks)
        o['texts'] = toks
        nodes = []
        _text_nodes(soup.expr, nodes)
        o['text_nodes'] = nodes
        return soup, o
    oc, v = obs.guarded(run)
    if oc != 'ok':
        return None, {'o': oc}
    soup, o = v
    o['o'] = 'ok'
    return soup, o


def _text_tokens(expr, out):
    from TexSoup.data import TexExpr, TexText
    for a in expr.args:
        if isinstance(a, TexExpr):
            _text_tokens(a, out)
    for x in expr._contents:
        if isinstance(x, TexText):
            t = x._text
            out.append([getattr(t, 'position', -1), str(t)])
        elif isinstance(x, TexExpr):
            _text_tokens(x, out)
        elif isinstance(x, str):
            out.append([getattr(x, 'position', -1), str(x)])


def _text_nodes(expr, out):
    """[position of the text NODE, position of its token, text] for every text node of the tree"""
    from TexSoup.data import TexExpr, TexText
    for a in expr.args:
        if isinstance(a, TexExpr):
            _text_nodes(a, out)
    for x in expr._contents:
        if isinstance(x, TexText):
            out.append([x.position, getattr(x._text, 'position', -1), str(x)])
        elif isinstance(x, TexExpr):
            _text_nodes(x, out)


def corpus_docs():
    """sources that are valid LaTeX documents: the samples and the literals of the tests that parse"""
    from harness import strings
    return strings.corpus_sources()


def replay_case(chk, case, clause):
    """Replay of a generated-document case: on every generated document the reader machine reproduces the oracle
    (checked by TLC when the document was generated), so the machine's tree for the same source is an equivalent
    oracle: the real tree (with offsets) and text must equal it."""
    from harness import strings as S
    src = case['input']
    skip = tuple(case.get('skip_envs', ()))
    res = S.explore(chk, 'replay', [], userskip=skip, invariants=[], sources=[src], runs='')
    rec = [r for r in res.records if from_atoms(r['i']) == src][0]
    soup, o = observe_doc(src, skip)
    chk.case(src)
    got = {'o': o['o'], 'out': o.get('out'), 'flat': o.get('flat')}
    want = {'o': rec['A']['o'], 'out': from_atoms(rec['A']['out']), 'flat': rec['A']['flat']}
    print(json.dumps({'input': src, 'real_outcome': got['o'], 'machine_outcome': want['o'], 'real_tree': repr(soup.expr) if soup else None}))
    if got['o'] != want['o'] or (got['o'] == 'ok' and (got['out'] != want['out'] or got['flat'] != want['flat'])):
        chk.violation(clause, {'input': src, 'kind': 'generated-document', 'skip_envs': list(skip), 'real': got['out'], 'machine': want['out']})
    return chk.finish()

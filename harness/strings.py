"""Shared machinery for the arbitrary-string experiments (Strings.tla / StringsTrace.tla):
C06, C07, C08, C16, C19 and the lexer part of C17 all use it with their own scopes."""
import json
import os
import random

from harness import tlc, obs
from harness.tlc import from_atoms, to_atoms

ALL_INV = ['C06_Diagnostic', 'C06_StepBound', 'C07a_TolerantExtends', 'C07c_OnlyClosers', 'C08_Conserves',
           'C16_FixedPoint', 'C19_NonEmpty', 'C19_TokPos', 'C19_Partition', 'C17_LexDeterminism']

# ---- alphabets (DESIGN.md 4.1) ---------------------------------------------------------------------------
SC = ['\\', '{', '}', '[', ']', '(', ')', '$', '%', '&', ' ', '\n', 'a', '*', '.', '|', '1']
SC_EXTRA = ['\t', '\r', '\x00', '\x7f', 'é']
ST = ['\\begin{e}', '\\end{e}', '\\begin{f}', '\\end{f}', '\\begin', '\\end', '\\item', '\\item[', '\\a', '\\b',
      '{', '}', '[', ']', '$', '$$', '\\(', '\\)', '\\[', '\\]', 'x', ' ', '\n', '\n\n', '%c\n', '%',
      '\\begin{verbatim}', '\\end{verbatim}', '\\begin{equation}', '\\end{equation}', '\\newcommand', '\\cup',
      '\\left(', '\\left', '\\big', '\\\\', '\\%', '\\$', '.', '*', ' {', ' [', '\\end {e}', '{e}', '\\begin{}',
      '\\end{}', '\\begin{ e}', '\\end{e }', '\\begin{ }', '\\end{ }', '\\begin{[tex]}', '\\end{[tex]}', '\\def', '\\textbf', '\\section', '\\label', '\\begin{itemize}',
      '\\end{itemize}', '\\begin[', 'e', '\\right)', '\\left.', '|']
SUB = {
    'env': ['\\begin{e}', '\\end{e}', '\\begin{f}', '\\end{f}', '\\begin', '\\end', '{e}', ' ', 'x', '{', '}', '\\end {e}', '\\a', '[',
            '\\end{e }', '\\begin{ }', '\\end{ }', '\\begin{ e}', '%'],
    'args': ['\\a', '{', '}', '[', ']', ' ', '\n', '\n\n', 'x', '%c\n', '\\b', ' {', ' [', '.', '[a%c\n'],
    'math': ['$', '$$', '\\(', '\\)', '\\[', '\\]', 'x', '\\$', '{', '}', '\\cup', '[', '\\left(', '\\begin{equation}', '\\end{equation}', '\\a'],
    'verb': ['\\begin{verbatim}', '\\end{verbatim}', '\\begin{e}', '\\end{e}', '$', '{', '}', 'x', '%', '\n', '\\', '[', '\\end',
             '\\end{verbatim', ']', '\\begin {verbatim}', '{x} y', 'a%b'],
    'item': ['\\begin{itemize}', '\\end{itemize}', '\\item', '\\item[', ']', 'x', 'é', '\\begin{item}\\a\\end{item}', '{e}', ' ', '{', '}', '$', '\\a', '\\begin{e}', '\\end{e}'],
    'esc': ['\\', '\\\\', '%', '\\%', 'c', '\n', '{', '}', '$', '\\$', ' ', 'a', '\\a', '*'],
    'sig': ['\\def', '\\textbf', '\\section', '\\label', '\\newcommand', '\\a', '{', '}', '[', ']', 'x', ' ', '\\cup', '\\left', '(', '\\begin{e}', '\\end{e}',
            '\\textbf{a}', '\\label{k}', '\\section[s]{t}', '\\def{a}{b}', '\\def\\foo{bar}', '\\section\\foo', '\\p{a}{b}{c}', '\\newcommand{\\p}[2]{x}', '\\renewcommand*', '%c\n', '\\newcommand{\\p}[]{x}', '\\newcommand{\\p}[#]'],
    'names': ['\\emph', '\\textit', '\\ref', '\\cite', '\\frac', '\\text', '\\section*', '\\item', '%c\n', ' ', 'x', '{', '}', '[', ']', '\n', '\\noindent', '\n\n', '\\in'],
    'ign': ['\x00', '\x7f', '\\', '$', '%', '{', '}', 'a', ' ', '\n', '[', '(', '\\\\'],
}


def words_bound(words, quick, base=3):
    """exhaustive bound in words for an alphabet: the quick bound, one more in the thorough tier where the alphabet is small enough
    for the extra level to stay in the millions of states (|alphabet| ^ bound sources, each parsed up to three times by the machine)"""
    return base if quick or len(words) > 14 else base + 1


def mc_strings(d, name, scopes, userskip=(), invariants=ALL_INV, dump=True, sources=(), runs='BC'):
    """scopes: list of (words, maxwords)"""
    sc = ', '.join('[w |-> {%s}, n |-> %d, m |-> %d]' % (', '.join(tlc.tla_seq(w) for w in s[0]), s[1], s[2] if len(s) > 2 else 0) for s in scopes)
    defs = ['MCScopes == <<' + sc + '>>',
            'MCSources == {' + ', '.join(tlc.tla_seq(s) for s in sources) + '}',
            'MCUserSkip == {' + ', '.join(tlc.tla_seq(s) for s in userskip) + '}']
    cfg = ['SPECIFICATION Spec', 'CONSTANTS', ' Scopes <- MCScopes',
           ' Sources <- MCSources', ' UserSkip <- MCUserSkip', ' DoB = %s' % ('TRUE' if 'B' in runs else 'FALSE'),
           ' DoC = %s' % ('TRUE' if 'C' in runs else 'FALSE')]
    cfg += ['INVARIANT ' + i for i in invariants]
    if dump:
        cfg.append('INVARIANT Dump')
    cfg += ['PROPERTY LexProgressP', 'CHECK_DEADLOCK FALSE']
    defs.append('LexProgressP == LexProgress')
    tlc.write_mc(d, name, 'Strings', defs, '\n'.join(cfg) + '\n')


def explore(chk, label, scopes, userskip=(), invariants=ALL_INV, timeout=900, simulate=None, depth=None, sources=(), runs='BC'):
    """Run TLC over all sources of the scopes [(words, maxwords), ...]; Result.records = experiments."""
    d = tlc.workdir('%s_%s' % (chk.pid, label))
    mc_strings(d, 'MC', scopes, userskip, invariants, sources=sources, runs=runs)
    res = tlc.run(d, 'MC', timeout=timeout, simulate=simulate, depth=depth, seed=chk.seed if simulate else None)
    chk.add_tlc(label, res, 'Strings: ' + '; '.join('%d words ^<=%d' % (len(s[0]), s[1]) for s in scopes)
                + (', simulate' if simulate else ''))
    return res


def model_must_hold(chk, res):
    """MACHINE |= CONTRACT is a statement about the specification alone (it does not change when the code
    changes); a violated invariant therefore needs triage of the model, not a VIOLATION line."""
    if res.violated:
        raise tlc.MachineryError('the reference machine violates %s inside TLC (model-level counterexample in %s); '
                                 'triage per DESIGN.md section 6' % (res.violated, res.cmd))


def _cmp_one(args):
    rec, skip = args
    src = from_atoms(rec['i'])
    ex = obs.experiment(src, skip)
    diffs = []
    for r in ('A', 'B', 'C'):
        if rec[r]['o'] == 'none' and not (r == 'C' and rec['A']['o'] != 'ok' and ex['C']['o'] == 'none'):
            continue            # run not performed by this model configuration
        if ex[r]['o'] != rec[r]['o']:
            diffs.append(r + '.o')
        elif ex[r]['o'] == 'ok':
            if ex[r]['out'] != rec[r]['out']:
                diffs.append(r + '.out')
            elif ex[r]['flat'] != rec[r]['flat']:
                diffs.append(r + '.flat')
    if ex['toks'] != rec['toks']:
        diffs.append('toks')
    return diffs, (ex if diffs else None)


def replay(chk, records, skip=()):
    """spec -> code: drive the real parser through every TLC experiment; returns the list of
    disagreeing observations (to be judged by TLC on the contract)."""
    out = obs.pmap(_cmp_one, [(r, tuple(skip)) for r in records])
    bad = []
    for rec, (diffs, ex) in zip(records, out):
        chk.case(''.join(rec['i']))
        if diffs:
            ex['_diffs'] = diffs
            bad.append(ex)
    chk.count('replayed', len(records))
    chk.count('replay_disagreements', len(bad))
    return bad


def validate(chk, observations, skip=(), label='trace', timeout=900, workers=16, light=False):
    """code -> spec: TLC validates recorded observations; returns list of (obs, failing, drift)."""
    if not observations:
        return []
    d = tlc.workdir('%s_%s' % (chk.pid, label))
    with open(os.path.join(d, 'obs.ndjson'), 'w') as f:
        for o in observations:
            o = {k: v for k, v in o.items() if not k.startswith('_')}
            f.write(json.dumps(o) + '\n')
    defs = ['MCScopes == <<>>', 'MCSources == {}',
            'MCUserSkip == {' + ', '.join(tlc.tla_seq(s) for s in skip) + '}']
    cfg = ('SPECIFICATION TSpec\nCONSTANTS\n Scopes <- MCScopes\n Sources <- MCSources\n'
           ' UserSkip <- MCUserSkip\n DoB = TRUE\n DoC = TRUE\n Light = %s\nINVARIANT Verdict\nCHECK_DEADLOCK FALSE\n' % ('TRUE' if light else 'FALSE'))
    tlc.write_mc(d, 'MCT', 'StringsTrace', defs, cfg)
    res = tlc.run(d, 'MCT', timeout=timeout, workers=workers)
    chk.add_tlc(label, res, 'StringsTrace%s: %d recorded observations' % (' (outcome clauses only, no machine run)' if light else '', len(observations)))
    verdicts = {}
    for r in res.records:
        if 'tid' in r:
            verdicts[r['tid']] = r
    if len(verdicts) != len(observations):
        raise tlc.MachineryError('trace validation returned %d verdicts for %d observations (see %s)'
                                 % (len(verdicts), len(observations), d))
    chk.traces += len(observations)
    out = []
    for k, o in enumerate(observations, 1):
        v = verdicts[k]
        out.append((o, v['failing'], v['drift'], v))
    return out


def judge(chk, verdicts, clauses, what=''):
    """Turn verdicts into VIOLATION (failing clause of this property) / DRIFT."""
    for o, failing, drift, v in verdicts:
        src = from_atoms(o['i'])
        mine = [c for c in failing if c in clauses]
        if mine:
            chk.violation('+'.join(sorted(mine)), {'input': src, 'kind': 'parse-experiment', 'what': what,
                                                   'A': _brief(o['A']), 'B': _brief(o['B']), 'C': _brief(o['C'])})
        elif drift:
            chk.drifted(','.join(sorted(drift)), {'input': src})


def _brief(r):
    return {'o': r['o'], 'out': from_atoms(r['out'])}


# ---- material the spec did not generate --------------------------------------------------------------------
def corpus_sources():
    """The repository's sample documents and every TeX literal in tests / docs / docstrings that is a
    plain (raw) string literal - harvested at run time."""
    import ast
    import glob
    import warnings
    srcs = []
    repo = os.environ.get('VERIF_REPO', '/repo')
    for p in sorted(glob.glob(repo + '/tests/samples/*.tex')):
        with open(p, encoding='utf-8') as f:
            srcs.append(f.read())
    for p in sorted(glob.glob(repo + '/tests/*.py')) + sorted(glob.glob(repo + '/TexSoup/*.py')) + \
            sorted(glob.glob(repo + '/examples/*.py')):
        try:
            import warnings
            with warnings.catch_warnings():
                warnings.simplefilter('ignore')
                t = ast.parse(open(p, encoding='utf-8').read())
        except SyntaxError:
            continue
        for node in ast.walk(t):
            if isinstance(node, ast.Constant) and isinstance(node.value, str) and '\\' in node.value \
                    and 2 <= len(node.value) <= 3000 and '>>>' not in node.value:
                srcs.append(node.value)
    # TeX literals inside doctest examples of docstrings and of the documentation (.rst)
    import doctest
    texts = []
    for p in sorted(glob.glob(repo + '/TexSoup/*.py')):
        try:
            with warnings.catch_warnings():
                warnings.simplefilter('ignore')
                t = ast.parse(open(p, encoding='utf-8').read())
        except SyntaxError:
            continue
        for node in ast.walk(t):
            if isinstance(node, (ast.Module, ast.ClassDef, ast.FunctionDef)):
                d = ast.get_docstring(node, clean=False)
                if d:
                    texts.append(d)
    for p in sorted(glob.glob(repo + '/docs/source/*.rst')) + sorted(glob.glob(repo + '/README.md')):
        try:
            texts.append(open(p, encoding='utf-8').read())
        except OSError:
            pass
    parser = doctest.DocTestParser()
    for text in texts:
        try:
            examples = parser.get_examples(text)
        except ValueError:
            continue
        for ex in examples:
            try:
                with warnings.catch_warnings():
                    warnings.simplefilter('ignore')
                    t = ast.parse(ex.source)
            except SyntaxError:
                continue
            for node in ast.walk(t):
                if isinstance(node, ast.Constant) and isinstance(node.value, str) and '\\' in node.value and 2 <= len(node.value) <= 3000:
                    srcs.append(node.value)
    seen, out = set(), []
    for s in srcs:
        if s not in seen:
            seen.add(s)
            out.append(s)
    return out


def random_strings(rng, words, count, minw, maxw):
    return [''.join(rng.choice(words) for _ in range(rng.randint(minw, maxw))) for _ in range(count)]


def mutations(rng, docs, per_doc, alphabet):
    """prefixes, single-character deletions, insertions and transpositions of documents"""
    out = []
    for d in docs:
        if not d:
            continue
        for _ in range(per_doc):
            k = rng.randrange(4)
            i = rng.randrange(len(d))
            if k == 0:
                out.append(d[:i])
            elif k == 1:
                out.append(d[:i] + d[i + 1:])
            elif k == 2:
                out.append(d[:i] + rng.choice(alphabet) + d[i:])
            elif i + 1 < len(d):
                out.append(d[:i] + d[i + 1] + d[i] + d[i + 2:])
    return out


def standard(chk, scopes, inv, clauses, what, extra_sources=(), sources=(), skip=(), timeout=3000, samples=6, runs='BC', simulate_words=None):
    """TLC exploration of the scopes (MACHINE |= CONTRACT for inv) + replay + trace validation of extras."""
    res = explore(chk, 'strings', scopes, userskip=skip, invariants=inv, timeout=timeout, sources=sources, runs=runs)
    model_must_hold(chk, res)
    recs = list(res.records)
    if simulate_words:
        # random long sources from TLC's simulation mode (seeded): the machine's verdicts on them are replayed like the others
        sim = explore(chk, 'simulate', [(simulate_words, 22, 6)], userskip=skip, invariants=inv, timeout=timeout, runs=runs,
                      simulate=60 if chk.tier == 'quick' else 300, depth=6000)
        model_must_hold(chk, sim)
        recs += sim.records
    bad = replay(chk, recs, skip)
    # every disagreement is repeated in a fresh interpreter: behaviour that depends on what was parsed before shows there
    os.makedirs(os.path.join(tlc.BUILD), exist_ok=True)
    fresh = []
    by_len = sorted(bad, key=lambda b: len(b['i']))
    pick = by_len[:30] + bad[::max(1, len(bad) // 30)][:30] + [b for b in by_len if 'command' in ''.join(b['i']) or '\\def' in ''.join(b['i'])][:40]
    seen_fresh = set()
    for b in pick:
        key = ''.join(b['i'])
        if key in seen_fresh:
            continue
        seen_fresh.add(key)
        f = obs.fresh_experiment(from_atoms(b['i']), skip)
        if f is not None:
            fresh.append(f)
    chk.count('disagreements_repeated_in_fresh_interpreter', len(fresh))
    bad = fresh + bad
    for r in res.records[:samples]:
        chk.sample({'source': from_atoms(r['i']), 'strict': r['A']['o'], 'strict_out': from_atoms(r['A']['out']),
                    'tolerant': r['B']['o'], 'tolerant_out': from_atoms(r['B']['out'])})
    extra = list(dict.fromkeys(extra_sources))
    exps = obs.experiments(extra, skip)
    for e in exps:
        chk.case(''.join(e['i']))
    verdicts = validate(chk, bad + exps, skip, timeout=timeout)
    judge(chk, verdicts, clauses, what)
    chk.exhaustive = False
    return res, verdicts


def regression_inputs(pids):
    """witnesses of fixed / known findings (replayed on every run)"""
    from harness import core
    out = []
    for e in json.load(open(core.FINDINGS))['findings']:
        if e.get('property') in pids:
            out += e.get('witness', {}).get('inputs', [])
    return out

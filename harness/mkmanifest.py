"""Regenerate MANIFEST.json from the table below (keeps it valid at all times)."""
import json
import os

ROOT = os.path.dirname(os.path.dirname(os.path.abspath(__file__)))

# pid -> (technique, level text, level note, design_ref)
CHECKS = {}


def add(pid, technique, text, note, ref):
    CHECKS[pid] = (technique, text, note, ref)


add('C06', 'TLC exhaustive over string alphabets on the lexer+reader machine (OutcomeIsDiagnostic, StepBound) + replay of every '
    'TLC experiment into the real parser + TLC trace validation of recorded parses',
    'TLC enumerates every source over a category alphabet and token-kind alphabets up to a length bound, runs the '
    'implementation-shaped reader machine in both tolerance modes and checks that the outcome is a tree or a diagnostic '
    'and that the step bound holds; every experiment is replayed on the real parser (outcome, text, tree, tokens compared), '
    'and parses of corpus / random / mutated / deeply nested sources recorded from the real parser are validated by TLC.',
    'Bounded: exhaustive only up to the stated word counts; beyond that random. Trusted: harness/proj.py projection, '
    'the watchdog limit for "never hangs".', '7 (C06)')

add('C07', 'TLC exhaustive over string alphabets: strict and tolerant run of the reader machine per source '
    '(TolerantExtends, OnlyClosersInserted) + replay into the real parser in both modes + TLC trace validation',
    'TLC runs the reader machine strictly and tolerantly on every source in scope and checks that a strict success is '
    'reproduced identically by the tolerant run and that a tolerant success only inserts closers; every experiment is replayed '
    'on the real parser, and recorded strict/tolerant parses of corpus, mutated and random sources are validated by TLC.',
    'Bounded scopes; clause (c) under the side conditions of C08 and permitting its whitespace normalisation (weaker reading); '
    'clause (b) on generated documents.', '7 (C07)')
add('C08', 'TLC exhaustive over string alphabets: Conserves(source, output) on the reader machine + replay into the real '
    'parser + TLC trace validation of recorded outputs',
    'TLC checks the character-conservation alignment between every source in scope and the machine output; each experiment is '
    'replayed on the real parser (text and tree must equal the machine\'s, else TLC judges the recorded output against the '
    'contract); recorded outputs for corpus, mutated and random sources are validated by TLC.',
    'Bounded scopes; side conditions decided by the reference machine; trusted: projection and alignment operator.', '7 (C08)')
add('C16', 'TLC exhaustive over string alphabets: machine re-run on its own output (FixedPoint) + replay of the '
    'parse/serialise/re-parse cycle on the real parser + TLC trace validation',
    'For every source in scope TLC parses, serialises and re-parses with the reader machine and checks that the second parse '
    'succeeds with identical text and shape; the same cycle is replayed on the real parser and recorded cycles for corpus, '
    'mutated and random sources are validated by TLC.',
    'Bounded scopes; side conditions (C08 + no bare sizing prefix) decided on the reference run.', '7 (C16)')

add('C18', 'TLC breadth-first exploration of a Python-list reference model (Args.tla) + replay of one witness path per '
    '(state, operation) on the real TexArgs + TLC trace validation (ArgsTrace) of recorded random walks',
    'The reference model is the property itself (a Python list under the library\'s equality). TLC enumerates every list state '
    'up to a length bound and every operation with every index; each transition is replayed along a witness path on a real '
    'TexArgs owned by a command (result, contents, identities, str(args), str(owner) compared after every call); long random '
    'walks recorded from the real class are validated event by event by TLC.',
    'Bounded list length and value pool (incl. textual twins, coercible and malformed strings); pop with explicit index.', '7 (C18)')
add('C19', 'TLC: lexer machine over all short strings (Partition, NonEmptyTokens, TokPosTrue, progress, determinism) + replay '
    'on the real tokenizer + TLC validation of recorded tokens (TokensPartition) and of the real category of every code point',
    'All 1,114,112 code points are categorised by the real code and TLC checks the recorded ranges against the table; TLC '
    'enumerates every string over one representative per category up to a length bound, checks the partition invariants in '
    'every lexer state, and the token lists are replayed on the real tokenizer; tokens recorded on corpus and random strings '
    'are validated by TLC.',
    'String length bound; trusted: projection of tokens (text, position, category).', '7 (C19)')
add('C20', 'TLC breadth-first exploration of a list+index reference model (Buffer.tla) + replay of one witness path per '
    '(state, operation) on the real Buffer (string-, token-backed, tokenizer output) + TLC trace validation (BufferTrace)',
    'The reference model is the property itself (a list with an integer index). TLC enumerates all short underlying sequences, '
    'cursor positions and operations; every transition is replayed along a witness path on real buffers comparing result and '
    'cursor after every call; random long in-range walks recorded from the real class are validated event by event by TLC.',
    'In-range moves only; bounded sequence length and operation alphabet.', '7 (C20)')

DOCGEN = ('TLC generation of all well-formed documents in scope by DocGen.tla (derivation machine with adjacency guards), reader '
          'machine run on each, ')
add('C01', DOCGEN + 'RoundTrip + slice invariants; replay of every document on the real parser; DocsTrace validation of corpus parses',
    'Every document derivable within the node budget is generated by TLC with its oracle; TLC checks the round trip and the '
    'slice clause on the reader machine and each document is replayed on the real parser (exact text, every node and text token a '
    'slice of the source at its recorded offset); corpus documents parsed by the real code are validated by TLC under a lexical '
    'hypothesis.', 'Bounded node budget / depth / siblings; oracle soundness rests on guards G1..G13 and UnparseInjective-style review.', '7 (C01)')
add('C02', DOCGEN + 'StructureWF (abstract machine tree = generating syntax tree); replay: abstract projection of the real tree = oracle',
    'The generating syntax tree is the oracle; TLC checks that the reader machine reproduces it and the real tree of every generated '
    'document is compared with it (names, argument kinds/order/contents, nesting, item ownership, definitions).',
    'Bounded node budget; adjacent text leaves merged before comparison.', '7 (C02)')
add('C03', DOCGEN + 'FindAll on the oracle for every root x query; replay of find_all/find/count/attribute/list queries on the real tree',
    'TLC computes the exact answer of every query (names, absent name, full expressions, \\begin{name}) at every search root on the '
    'oracle tree and checks the machine tree agrees; the real search API is compared with it for every root and query.',
    'Bounded node budget; result order unconstrained.', '7 (C03)')
add('C13', DOCGEN + 'node offsets from Unparse, regex family hits, LineCol.tla over all short {letter,LF} strings; replay of '
    'position / char_pos_to_line / search_regex; DocsTrace validation on corpus',
    'TLC supplies the offset of every node, the expected regex matches and the (line, column) of every offset of every short '
    'string; the real positions, char_pos_to_line (ascending and descending lookup order) and search_regex are compared with them; '
    'corpus parses are validated by TLC.', 'Bounded budget and string length; LF line structure; fixed regex family.', '7 (C13)')

add('C04', 'TLC trace validation (ViewsTrace.tla) of the views recorded from the real tree for every node of every DocGen '
    'document and corpus document; DocGen + reader machine supply the documents',
    'For every generated document (all construct kinds within the budget) and every corpus document the harness records the '
    'items of all/contents/children/iteration/indexing/descendants/text of every node, the parents handed out and the parent '
    'chains; TLC evaluates the relations the property states between those recorded views.',
    'Bounded node budget; the complete content list is expr.all as the property says; identity of the underlying object '
    'identifies an item across views.', '7 (C04)')

add('C09', DOCGEN + 'separators before argument groups (attaching set) and detaching sibling material; StructureWF + Conserves; '
    'replay: abstract tree (argument kinds/order/contents, following siblings) = oracle',
    'The derivation itself says which groups are arguments (attaching separators stand before argument groups, detaching material '
    'is sibling text); TLC checks the reader machine reproduces the oracle and every layout is replayed on the real parser.',
    'Bounded budget; brackets precede braces; separators from a fixed attaching / detaching set.', '7 (C09)')
add('C10', DOCGEN + 'comment payloads from a hostile alphabet in every context, backslash parity texts; RoundTrip + StructureWF + '
    'search for payload names; replay on the real parser',
    'The oracle tree has one comment leaf and is otherwise independent of the payload; TLC checks the reader machine reproduces it '
    'for every hostile payload in every context and that names occurring only in payloads are not found; each document is replayed.',
    'Bounded budget; hostile payload alphabet and contexts as listed in harness/props/c10.py.', '7 (C10)')
add('C11', DOCGEN + 'verbatim-like environments (all built-in names + user names via skip_envs) with hostile bodies at top level '
    'and nested in named environments; RoundTrip + StructureWF + blind search; replay with the same skip_envs; option-off scope',
    'The oracle has one text leaf = the body; TLC checks the reader machine reproduces it, never errs and is blind inside; every '
    'document is replayed on the real parser with the same skip_envs; the same user names without the option are checked as ordinary '
    'environments. One known finding (leading line break + brace read as options) is listed in known_findings.json.',
    'Bounded budget; provisos of the property taken literally.', '7 (C11)')
add('C12', DOCGEN + 'the four delimiter pairs and all named math environments, bodies with unbalanced brackets, every sizing command '
    'x delimiter, zero-argument operators, escaped dollars, every context; RoundTrip + StructureWF + search; replay',
    'The oracle has one math node of the right kind per region; TLC checks the reader machine reproduces it and finds the commands '
    'inside; each document is replayed on the real parser (text, node kinds and bodies, search).',
    'Bounded budget; brackets directly after ordinary / sizing commands and adjacent "$" regions excluded as the property says.', '7 (C12)')

EDITS = ('Edits.tla reference document model started on the reader machine\'s tree: ')
add('C05', EDITS + 'TLC enumerates every single structural edit on twin documents and DocGen documents (SpliceLocal as action '
    'property); replay of each edit on a fresh real parse (target by identity), text / search / text view / descendants compared',
    'Every (document, target, operation, index, material) combination in scope is enumerated by TLC on the reference model, whose '
    'locality (splice of exactly the target span) TLC checks; each is replayed on the real tree and the serialised text must equal '
    'the model\'s.', 'Bounded set of start documents (hand-written twins + DocGen budget 2) and material lists of 1..3 items.', '7 (C05)')
add('C14', EDITS + 'every single rename / string assignment / argument-list edit; replay on the real tree incl. search for old and new '
    'names and re-parse of the new text',
    'TLC enumerates every rename, string assignment and argument-list operation on every command / environment of the start '
    'documents; each is replayed on the real tree (text, search, views = model) and the new text is re-parsed and compared.',
    'Bounded start documents; re-parse clause only for names outside the parser\'s tables and argument lists of the documented shape.', '7 (C14)')
add('C15', EDITS + 'TLC enumerates every history of N edits over all operation kinds; step-by-step replay on the real tree with the '
    'C03/C04 clauses re-evaluated after every step; EditsTrace.tla validates random long histories recorded from the real tree',
    'The reference model is the property\'s own yardstick. All histories up to the depth bound are enumerated by TLC and replayed '
    'step by step; longer random histories chosen from the real tree\'s views are validated by TLC event by event.',
    'Depth-bounded exhaustive part on small documents; material always freshly parsed.', '7 (C15)')

add('C17', 'TLC: reader machine on the source pool (expected trees), lexer Determinism/PunctPrefixFree on every sizing command, '
    'Session.tla enumerating all interleavings of parse/edit/reparse/drop on two documents; replay: every input form and chunking, '
    'fresh interpreters under 8 hash seeds, every interleaving with per-slot isolation and identity-disjointness',
    'TLC supplies the expected tree of every pool source and all interleavings of a two-document session; the real parser is fed '
    'every form and chunking (incl. empty chunks) of every source, run under several hash seeds in fresh interpreters, and driven '
    'through every interleaving, after each step of which every document must equal its own history run alone and share no '
    'mutable object with the other.', 'Bounded pool of sources, 4-step sessions, 8 seeds; id() as the notion of sharing.', '7 (C17)')

NOT_YET = 'check not built yet in this round (planned, see DESIGN.md section 7)'


def main():
    props = [json.loads(l)['id'] for l in open(os.path.join(ROOT, 'properties.jsonl'))]
    checks = []
    for pid in props:
        if pid not in CHECKS:
            continue
        tech, text, note, ref = CHECKS[pid]
        checks.append({
            'property_id': pid,
            'quick_cmd': './check %s --tier quick' % pid,
            'thorough_cmd': './check %s --tier thorough' % pid,
            'evidence_file': 'evidence/%s.json' % pid,
            'replay_cmd_template': './check %s --replay {path}' % pid,
            'engine': 'tlc',
            'level_claimed': {'category': 'model_checking', 'text': text, 'design_ref': 'DESIGN.md section ' + ref},
            'level_note': note,
            'technique': tech,
        })
    man = {
        'version': 1,
        'setup_cmd': './setup.sh',
        'hooks': {
            'guard': 'TEXSOUP_VERIF',
            'enable': 'no source hooks: the harness imports /repo in-process (PYTHONPATH=/repo) and wraps module-level '
                      'functions at run time; TEXSOUP_VERIF is reserved and unused',
            'baseline_off_cmd': 'cd /repo && /venv/bin/python -m pytest -ra -q -p no:cacheprovider --timeout=900 '
                                '--continue-on-collection-errors',
            'source_commits': [],
            'add_only': True,
        },
        'engines': [{'name': 'tlc', 'path': '/opt/veriftools/tla/tla2tools.jar',
                     'serves_properties': [c['property_id'] for c in checks],
                     'kind_free_text': 'TLC 1.8 explicit-state model checker on the TLA+ modules in /verif/spec; '
                                       'conformance harness in /verif/harness (Python, stdlib only)'}],
        'checks': checks,
        'not_applicable': [{'property_id': p, 'reason': NOT_YET} for p in props if p not in CHECKS],
        'notes': 'See DESIGN.md. VIOLATION only from contract clauses evaluated on observations of the real code; '
                 'machine/code disagreement without a contract failure is reported as DRIFT and does not fail a check. '
                 'tools/selftest.py (vacuity + corrupted-trace rejection) -> selftest.json; seeded/ holds 270 confirmed code changes (four waves from independent sub-agents, own ones, reverse patches of repairs) and seeded/RESULTS.md says which check catches which; known_findings.json lists 3 open findings (C06, C11, C12) and the 36 repairs made by fix: commits.',
    }
    with open(os.path.join(ROOT, 'MANIFEST.json'), 'w') as f:
        json.dump(man, f, indent=1)
        f.write('\n')


if __name__ == '__main__':
    main()

"""Verdicts, evidence files, known findings, replay files.

Three verdict classes (DESIGN.md section 6):
  VIOLATION  - a contract clause of the property is false on an observation of the code  -> exit 1
  DRIFT      - code != machine model, no contract clause fails                             -> counted only
  MACHINERY  - TLC crash, unparsable output, missing API                                   -> exit 2
"""
import hashlib
import json
import os
import re
import sys
import time

ROOT = os.path.dirname(os.path.dirname(os.path.abspath(__file__)))
EVID = os.path.join(ROOT, 'evidence')
REPLAYS = os.path.join(ROOT, 'replays')
FINDINGS = os.path.join(ROOT, 'known_findings.json')


def load_findings():
    if not os.path.exists(FINDINGS):
        return []
    with open(FINDINGS) as f:
        return json.load(f)['findings']


def finding_matches(entry, case):
    m = entry.get('match', {})
    for k, v in m.items():
        if k.endswith('_regex'):
            field = str(case.get(k[:-6], ''))
            if not re.search(v, field, re.S):
                return False
        elif case.get(k) != v:
            return False
    return True


class Check(object):
    def __init__(self, pid, tier, seed, replay=None):
        self.pid = pid
        self.tier = tier
        self.seed = seed
        self.t0 = time.time()
        self.states = 0
        self.transitions = 0
        self.traces = 0
        self.evaluations = 0
        self.nontrivial = set()
        self.samples = []
        self.violations = []       # unknown
        self.known = []            # (entry, case)
        self.drift = 0
        self.drift_samples = []
        self.notes = {}
        self.assumptions = []
        self.tlc_runs = []
        self.exhaustive = None
        self.rule = ''
        self._findings = [e for e in load_findings() if e.get('property') == pid and e.get('status') == 'finding']
        self._seen_viol = set()
        self.counters = {}

    # ---- accounting -------------------------------------------------------
    def add_tlc(self, name, res, what=''):
        self.states += res.distinct
        self.transitions += res.generated
        self.tlc_runs.append({'model': name, 'states': res.distinct, 'transitions': res.generated,
                              'wall_s': round(res.wall, 1), 'what': what, 'violated': res.violated})

    def count(self, key, n=1):
        self.counters[key] = self.counters.get(key, 0) + n

    def sample(self, s, limit=12):
        if len(self.samples) < limit:
            self.samples.append(s)

    def case(self, key, nontrivial=True):
        """Register one explored case (key = hashable identity of the case)."""
        self.evaluations += 1
        if nontrivial:
            if not isinstance(key, str):
                key = json.dumps(key, sort_keys=True, default=str)
            self.nontrivial.add(hashlib.md5(key.encode('utf-8', 'replace')).digest()[:8])

    # ---- verdicts ---------------------------------------------------------
    def violation(self, clause, case):
        """case: dict describing the failing observation (must carry what a replay needs)."""
        case = dict(case)
        case['clause'] = clause
        case['property'] = self.pid
        for e in self._findings:
            if finding_matches(e, case):
                self.known.append((e, case))
                return
        k = json.dumps(case, sort_keys=True, default=str)
        if k in self._seen_viol:
            return
        self._seen_viol.add(k)
        self.violations.append(case)

    def drifted(self, what, case=None):
        self.drift += 1
        if len(self.drift_samples) < 8:
            self.drift_samples.append({'what': what, 'case': case})

    # ---- finish -----------------------------------------------------------
    def finish(self, level='model_checking'):
        os.makedirs(EVID, exist_ok=True)
        os.makedirs(REPLAYS, exist_ok=True)
        lines = []
        seen_known = set()
        for e, case in self.known:
            kid = e.get('id') or e.get('what')
            if kid in seen_known:
                continue
            seen_known.add(kid)
            lines.append('KNOWN-FINDING: property=%s %s' % (self.pid, e.get('what')))
        replay_paths = []
        for i, case in enumerate(self.violations[:20]):
            h = hashlib.md5(json.dumps(case, sort_keys=True, default=str).encode()).hexdigest()[:10]
            path = os.path.join(REPLAYS, '%s_%s.json' % (self.pid, h))
            with open(path, 'w') as f:
                json.dump(case, f, indent=1, default=str)
            replay_paths.append(path)
            lines.append('VIOLATION property=%s replay=%s' % (self.pid, path))
            lines.append('  clause=%s %s' % (case.get('clause'), _short(case)))
        if self.drift:
            lines.append('DRIFT: property=%s %d behaviours where code != machine model without a contract failure'
                         % (self.pid, self.drift))
            for d in self.drift_samples[:3]:
                lines.append('  drift: %s' % _short(d))
        cov = {
            'states': self.states,
            'transitions': self.transitions,
            'traces_validated_against_impl': self.traces,
            'samples': self.samples or ['<none>'],
            'evaluations': self.evaluations,
            'distinct_nontrivial': len(self.nontrivial),
            'rule': self.rule,
            'tlc_runs': self.tlc_runs,
            'drift': self.drift,
            'drift_samples': self.drift_samples,
            'known_findings_hit': sorted(seen_known),
            'counters': self.counters,
        }
        if self.exhaustive is not None:
            cov['exhaustive'] = self.exhaustive
        cov.update(self.notes)
        ev = {
            'property_id': self.pid,
            'tier': self.tier,
            'seed': self.seed,
            'level': level,
            'coverage': cov,
            'assumptions': self.assumptions,
            'wall_s': round(time.time() - self.t0, 2),
            'violations': len(self.violations),
        }
        # a --replay run never overwrites the evidence of the check; neither does a run against a scratch copy of the repository
        # (tools/sweep.sh sets VERIF_NO_EVIDENCE: its runs are on seeded changes)
        if not getattr(self, 'replay_mode', False) and not os.environ.get('VERIF_NO_EVIDENCE'):
            with open(os.path.join(EVID, self.pid + '.json'), 'w') as f:
                json.dump(ev, f, indent=1, default=str)
        for line in lines:
            print(line)
        print('%s tier=%s seed=%d states=%d transitions=%d traces=%d cases=%d distinct=%d drift=%d known=%d '
              'violations=%d wall=%.1fs' % (self.pid, self.tier, self.seed, self.states, self.transitions,
                                            self.traces, self.evaluations, len(self.nontrivial), self.drift,
                                            len(seen_known), len(self.violations), time.time() - self.t0))
        return 1 if self.violations else 0


def _short(obj, n=300):
    s = json.dumps(obj, default=str, sort_keys=True)
    return s if len(s) <= n else s[:n] + '...'


def machinery(pid, msg):
    print('MACHINERY: property=%s %s' % (pid, msg))
    sys.exit(2)

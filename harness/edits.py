"""Shared machinery for the edit properties (Edits.tla / EditsTrace.tla): C05, C14, C15."""
import json
import os
import random

from harness import tlc, obs
from harness.tlc import to_atoms, from_atoms, tla_seq as S

SNIPS = {1: '\\n{q}', 2: '\\begin{w}u\\end{w}', 3: '{g}', 4: '$m$', 5: '\\a{x}', 6: '\\n{\\q{1}}', 7: '\\n{q}'}
DONOR7 = '\\begin{itemize}\\item \\w{\\n{q}}\\end{itemize}'      # snippet 7 is copied out of an argument inside an item of this document
OBS_NAMES = ['a', 'n', 'q', 'w', 'zz', 'item', 'e', 'kk*', '\\begin{e}', '\\begin{zz}', '\\end{zz}', '\\end{e}', '\\begin{itemize}']
ALL_KINDS = ['args_swap', 'args_del', 'delete', 'replace_with', 'replace', 'remove', 'insert', 'append', 'rename', 'set_string', 'args_append', 'args_pop',
             'args_reverse', 'args_slice', 'args_insert', 'args_remove', 'args_clear', 'args_set', 'args_delslice', 'copy_append']
STRUCT = ['delete', 'replace_with', 'replace', 'remove', 'insert', 'append', 'copy_append']
PARTS = ['args_swap', 'args_del', 'rename', 'set_string', 'args_append', 'args_pop', 'args_reverse', 'args_slice', 'args_insert', 'args_remove', 'args_clear',
         'args_set', 'args_delslice']


def mat_tla(ms):
    return '<< ' + ', '.join('[m |-> "str", s |-> %s]' % S(m) if isinstance(m, str) else '[m |-> "node", k |-> %d]' % m for m in ms) + ' >>'


def mc_edits(d, name, sources, maxedits, kinds, names, strs, materials, dump=True, text_targets=False, rename_items=True):
    defs = ['MCSrc == {%s}' % ', '.join(S(x) for x in sources),
            'MCKinds == {%s}' % ', '.join(tlc.tla_str(k) for k in kinds),
            'MCNames == {%s}' % ', '.join(S(x) for x in names), 'MCStrs == {%s}' % ', '.join(S(x) for x in strs),
            'MCMat == {%s}' % ', '.join(mat_tla(m) for m in materials)]
    cfg = ['SPECIFICATION ESpec', 'CONSTANTS', ' ESources <- MCSrc', ' MaxEdits = %d' % maxedits, ' OpKinds <- MCKinds',
           ' NewNames <- MCNames', ' NewStrings <- MCStrs', ' Material <- MCMat', ' TextTargets = %s' % ('TRUE' if text_targets else 'FALSE'),
           ' RenameItems = %s' % ('TRUE' if rename_items else 'FALSE'), 'INVARIANT IdsUnique']
    if dump:
        cfg.append('INVARIANT EDump')
    cfg += ['PROPERTY SpliceLocal', 'PROPERTY RenameLocal', 'CHECK_DEADLOCK FALSE']
    tlc.write_mc(d, name, 'Edits', defs, '\n'.join(cfg) + '\n')


def explore(chk, label, sources, maxedits, kinds, names=('zz',), strs=('S t',), materials=(('X',), (1,), (5, 'Y')), timeout=3000,
            simulate=None, depth=None, text_targets=False, rename_items=True):
    d = tlc.workdir('%s_%s' % (chk.pid, label))
    mc_edits(d, 'MCE', sources, maxedits, kinds, names, strs, materials, text_targets=text_targets, rename_items=rename_items)
    res = tlc.run(d, 'MCE', timeout=timeout, simulate=simulate, depth=depth, seed=chk.seed if simulate else None)
    chk.add_tlc(label, res, 'Edits: %d start documents, histories of %d edits over %d operation kinds%s'
                % (len(sources), maxedits, len(kinds), ', simulate' if simulate else ''))
    if res.violated:
        raise tlc.MachineryError('the reference document model violates %s (see %s/MCE.out)' % (res.violated, d))
    return [r for r in res.records if 'h' in r]


# ---- real side ---------------------------------------------------------------------------------------------
def expr_at(root_expr, path):
    e = root_expr
    for t, j, i in path:
        e = e._contents[i - 1] if t == 0 else e.args[j - 1]._contents[i - 1]
    return e


def wrapper_of(soup, expr, path=None):
    from TexSoup.data import TexNode, TexText
    if expr is soup.expr:
        return soup
    if isinstance(expr, TexText) and path:
        parent = wrapper_of(soup, expr_at(soup.expr, path[:-1])) if len(path) > 1 else soup
        if parent is None:
            return None
        for c in parent.all:
            if c.expr is expr:
                return c
        return None
    stack = [soup]
    while stack:
        n = stack.pop()
        for c in n.contents:
            if isinstance(c, TexNode):
                if c.expr is expr:
                    return c
                stack.append(c)
    return None


def material(ms):
    from TexSoup import TexSoup
    out = []
    for m in ms:
        if m['m'] == 'str':
            out.append(from_atoms(m['s']))
        else:
            if m['k'] == 7:
                out.append(TexSoup(DONOR7).find('n').copy())
            else:
                out.append(TexSoup(SNIPS[m['k']]).children[0].copy())
    return out


def apply_op(soup, op):
    """apply one recorded / generated operation to the real tree; returns exception name or None"""
    k = op['k']
    try:
        if k in ('insert', 'append', 'remove', 'replace', 'copy_append'):
            pw = wrapper_of(soup, expr_at(soup.expr, op['ppath']))
            if pw is None:
                return 'unreachable-parent'
        if k not in ('insert', 'append'):
            w = wrapper_of(soup, expr_at(soup.expr, op['path']), op['path'])
            if w is None:
                return 'unreachable-target'
        if k == 'delete':
            w.delete()
            # the handle is stale now: using it again must fail (or do nothing), never remove an equal-looking sibling
            before = str(soup)
            try:
                w.delete()
            except Exception:   # noqa
                pass
            if str(soup) != before:
                return 'stale-handle-delete-changed-the-document'
        elif k == 'replace_with':
            w.replace_with(*material(op['ms']))
        elif k == 'replace':
            pw.replace(w, *material(op['ms']))
        elif k == 'remove':
            pw.remove(w)
        elif k == 'insert':
            pw.insert(op['i'], *material(op['ms']))
        elif k == 'append':
            pw.append(*material(op['ms']))
        elif k == 'copy_append':
            pw.append(w.copy())
        elif k == 'rename':
            w.name = from_atoms(op['nm'])
        elif k == 'set_string':
            w.string = from_atoms(op['s'])
        elif k == 'args_append':
            kind = from_atoms(op['s'])
            w.args.append({'{': '{z}', '[': '[z]', '{{': '{{z}}'}[kind])
        elif k == 'args_set':
            w.args[op['i']] = {'{': '{z}', '{{': '{{z}}'}[from_atoms(op['s'])]
        elif k == 'args_delslice':
            del w.args[op['i']:int(from_atoms(op['s']))]
        elif k == 'args_insert':
            w.args.insert(op['i'], '{z}')
        elif k == 'args_pop':
            w.args.pop(op['i'])
        elif k == 'args_remove':
            w.args.remove(w.args[op['i']])
        elif k == 'args_reverse':
            w.args.reverse()
        elif k == 'args_clear':
            w.args.clear()
        elif k == 'args_swap':
            a = w.args
            a[0], a[op['i']] = a[op['i']], a[0]
        elif k == 'args_del':
            del w.args[op['i']]
        elif k == 'args_slice':
            w.args = w.args[op['i']:int(from_atoms(op['s']))]
        else:
            return 'unknown-op'
    except Exception as e:      # noqa
        return 'exc:' + type(e).__name__
    return None


def observe(soup):
    from TexSoup.data import TexNode
    o = {'t': to_atoms(str(soup))}
    o['cnt'] = [soup.count(nm) for nm in OBS_NAMES]
    o['tv'] = [to_atoms(str(x)) for x in soup.text]
    o['ds'] = [to_atoms(str(x)) for x in soup.descendants]
    return o


def consistency(soup):
    """C03 / C04 clauses re-evaluated on the edited real tree (views mutually consistent, inserted material included)"""
    from TexSoup.data import TexNode
    bad = []
    stack = [soup]
    seen = 0
    while stack and seen < 500:
        n = stack.pop()
        seen += 1
        ch = list(n.children)
        co = list(n.contents)
        if [c.expr for c in ch] != [c.expr for c in co if isinstance(c, TexNode)]:
            bad.append('children')
        for c in ch:
            if c.parent is not n:
                bad.append('parent')
            stack.append(c)
        want = list(co)
        for c in ch:
            want += list(c.descendants)
        got = list(n.descendants)
        if sorted(str(x) for x in got) != sorted(str(x) for x in want) or len(got) != len(want):
            bad.append('descendants')
    for nm in OBS_NAMES:
        fa = soup.find_all(nm)
        f = soup.find(nm)
        if soup.count(nm) != len(fa) or (f is None) != (not fa) or (f is not None and f.expr is not fa[0].expr):
            bad.append('find')
    try:          # the regex search runs over the text view: it must keep working on edited trees
        hits = [str(m) for m in soup.search_regex('[A-Za-z]+')]
        if ''.join(hits) != ''.join(''.join(x for x in str(t) if x.isascii() and x.isalpha()) for t in soup.text):
            bad.append('search_regex')
    except Exception:   # noqa
        bad.append('search_regex-raises')
    return sorted(set(bad))


def replay_history(rec):
    """spec -> code: apply the history step by step; returns first mismatch or None"""
    from TexSoup import TexSoup
    src = from_atoms(rec['i'])
    soup = TexSoup(src)
    observe(soup)        # look at every view BEFORE the first edit too (anything the library caches is then stale-able)
    for n, ev in enumerate(rec['h']):
        err = apply_op(soup, ev['op'])
        if err:
            return {'step': n, 'why': 'exception', 'detail': err, 'op': ev['op']}
        try:
            o = observe(soup)
            cons = consistency(soup)
        except Exception as e:   # noqa
            return {'step': n, 'why': 'exception', 'detail': 'views:' + type(e).__name__, 'op': ev['op']}
        want = ev['obs']
        for key, why in (('t', 'text'), ('cnt', 'search'), ('tv', 'textview')):
            if o[key] != want[key]:
                return {'step': n, 'why': why, 'op': ev['op'], 'got': _show(o[key]), 'want': _show(want[key])}
        if sorted(map(tuple, o['ds'])) != sorted(map(tuple, want['ds'])):
            return {'step': n, 'why': 'descendants', 'op': ev['op'], 'got': _show(o['ds']), 'want': _show(want['ds'])}
        if cons:
            return {'step': n, 'why': 'inconsistent:' + '+'.join(cons), 'op': ev['op']}
    return None


def _show(v):
    if v and isinstance(v[0], list):
        return [from_atoms(x) for x in v][:12]
    if v and isinstance(v[0], str):
        return from_atoms(v)
    return v


def show_op(op):
    o = {'k': op['k']}
    if op.get('path'):
        o['path'] = op['path']
    if op.get('ppath'):
        o['ppath'] = op['ppath']
    if op['k'] in ('insert', 'args_insert', 'args_pop', 'args_remove', 'args_slice', 'args_set', 'args_delslice', 'args_del', 'args_swap'):
        o['i'] = op['i']
    if op.get('nm'):
        o['name'] = from_atoms(op['nm'])
    if op.get('s'):
        o['s'] = from_atoms(op['s'])
    if op.get('ms'):
        o['material'] = [from_atoms(m['s']) if m['m'] == 'str' else SNIPS[m['k']] for m in op['ms']]
    return o


def replay_all(chk, recs, pid_clause):
    out = obs.pmap(replay_history, recs)
    for r, b in zip(recs, out):
        chk.case(json.dumps([r['i'], [e['op'] for e in r['h']]]))
        if b:
            chk.violation('%s-%s' % (pid_clause, b['why']), {
                'kind': 'history', 'input': from_atoms(r['i']), 'history': [e['op'] for e in r['h'][:b['step'] + 1]],
                'shown': [show_op(e['op']) for e in r['h'][:b['step'] + 1]], 'mismatch': {k: v for k, v in b.items() if k != 'op'}})
    chk.count('histories_replayed', len(recs))


# ---- code -> spec: random histories chosen from the real tree's views ---------------------------------------
def path_of(soup, expr):
    """path of an expression below the root (t, j, i) steps, by identity"""
    from TexSoup.data import TexExpr

    def walk(e, prefix):
        for j, a in enumerate(e.args, 1):
            for i, x in enumerate(getattr(a, '_contents', []), 1):
                if x is expr:
                    return prefix + [[1, j, i]]
                if isinstance(x, TexExpr) and not isinstance(x, str):
                    r = walk(x, prefix + [[1, j, i]])
                    if r:
                        return r
        for i, x in enumerate(e._contents, 1):
            if x is expr:
                return prefix + [[0, 0, i]]
            if isinstance(x, TexExpr) and not isinstance(x, str):
                r = walk(x, prefix + [[0, 0, i]])
                if r:
                    return r
        return None
    return walk(soup.expr, [])


def random_history(rng, src, length, kinds):
    from TexSoup import TexSoup
    from TexSoup.data import TexNode, TexCmd, TexNamedEnv, TexEnv, TexGroup, TexText
    soup = TexSoup(src)
    observe(soup)
    h = []
    mats = [[{'m': 'str', 's': to_atoms('X')}], [{'m': 'node', 'k': 1}], [{'m': 'node', 'k': 5}, {'m': 'str', 's': to_atoms('Y')}],
            [{'m': 'node', 'k': 6}], [{'m': 'str', 's': to_atoms('p q')}, {'m': 'node', 'k': 2}, {'m': 'node', 'k': 3}], [{'m': 'node', 'k': 7}]]
    for _ in range(length):
        nodes = [n for n in soup.descendants if isinstance(n, TexNode)]
        k = rng.choice(kinds)
        op = {'k': k, 'id': 0, 'pid': 0, 'i': 0, 'nm': [], 's': [], 'ms': [], 'path': [], 'ppath': []}

        def supports(n):
            e = n.expr
            return isinstance(e, TexEnv) or (isinstance(e, TexCmd) and (e.name == 'item' or bool(e._contents)))
        if k == 'copy_append':
            cands = [n for n in nodes if len(str(n)) <= 24]
            if not cands:
                continue
            w = rng.choice(cands)
            pw = rng.choice([soup] + [n for n in nodes if supports(n)])
            op['path'] = path_of(soup, w.expr)
            op['ppath'] = path_of(soup, pw.expr) if pw is not soup else []
        elif k in ('delete', 'replace_with', 'rename', 'set_string') or k.startswith('args_'):
            if not nodes:
                continue
            w = rng.choice(nodes)
            e = w.expr
            op['path'] = path_of(soup, e)
            if k == 'replace_with':
                op['ms'] = rng.choice(mats)
            elif k == 'rename':
                if not isinstance(e, (TexCmd, TexNamedEnv)):
                    continue
                op['nm'] = to_atoms(rng.choice(['zz', 'kk*']))
            elif k == 'set_string':
                ok_cmd = isinstance(e, TexCmd) and len(e.args) == 1 and isinstance(e.args[0], TexGroup)
                vis = [c for c in e._contents if not (isinstance(c, (TexText, str)) and str(c).isspace())]
                ok_env = isinstance(e, TexEnv) and not e.args and len(vis) == 1 and isinstance(vis[0], (TexText, str))
                if not (ok_cmd or ok_env):
                    continue
                op['s'] = to_atoms(rng.choice(['S t', 'u', '']))
            elif k.startswith('args_'):
                if not isinstance(e, (TexCmd, TexNamedEnv)) or not all(isinstance(a, TexGroup) for a in e.args):
                    continue
                na = len(e.args)
                if k == 'args_append':
                    if na >= 4:
                        continue
                    op['s'] = rng.choice([['{'], ['['], ['{', '{']])
                elif k == 'args_set':
                    if na == 0:
                        continue
                    op['i'] = rng.randrange(na)
                    op['s'] = rng.choice([['{'], ['{', '{']])
                elif k == 'args_delslice':
                    if na < 2:
                        continue
                    op['i'] = rng.randint(0, 1)
                    op['s'] = to_atoms(str(rng.randint(op['i'] + 1, na)))
                elif k == 'args_insert':
                    if na >= 4:
                        continue
                    op['i'] = rng.randint(0, na)
                    op['s'] = ['{']
                elif k in ('args_pop', 'args_remove'):
                    if na == 0:
                        continue
                    op['i'] = rng.randrange(na)
                elif k == 'args_reverse':
                    if na < 2:
                        continue
                elif k == 'args_swap':
                    if na < 2:
                        continue
                    op['i'] = rng.randint(1, na - 1)
                elif k == 'args_del':
                    if na == 0:
                        continue
                    op['i'] = rng.randrange(na)
                elif k == 'args_clear':
                    if na == 0:
                        continue
                elif k == 'args_slice':
                    if na == 0:
                        continue
                    op['i'] = rng.randint(0, 1)
                    op['s'] = to_atoms(str(rng.randint(1, na)))
        else:
            parents = [soup] + [n for n in nodes if supports(n)]
            pw = rng.choice(parents)
            op['ppath'] = path_of(soup, pw.expr) if pw is not soup else []
            if k in ('insert', 'append'):
                op['ms'] = rng.choice(mats)
                if k == 'insert':
                    op['i'] = rng.randint(-3, len(pw.expr._contents) + 1)
            else:
                if True:        # replace and remove take children of the body and of the argument groups alike
                    kids = [c for c in pw.expr.all if not isinstance(c, (TexText, str))] if pw is not soup else \
                        [c for c in pw.expr._contents if not isinstance(c, (TexText, str))]
                if not kids:
                    continue
                c = rng.choice(kids)
                op['path'] = path_of(soup, c)
                if k == 'replace':
                    op['ms'] = rng.choice(mats)
        if k in ('remove', 'replace') and op['path'] is not None and op['ppath'] is not None and op['path'][:-1] != op['ppath']:
            op['path'] = None       # the parent's views list a child that the tree holds somewhere else (one expression at two places)
        if op['path'] is None or op['ppath'] is None:
            # a view handed out a node that is not (any more) in the tree: the views are not consistent with the tree
            if h:
                h[-1]['cons'] = sorted(set(h[-1]['cons'] + ['view-hands-out-node-not-in-tree']))
            else:
                return {'i': to_atoms(src), 'h': [], 'stale': True}
            break
        err = apply_op(soup, op)
        cons = []
        if not err:
            try:            # looking at the edited tree must not fail either
                o = observe(soup)
                cons = consistency(soup)
            except Exception as e:   # noqa
                err = 'exc:views:' + type(e).__name__
        if err:
            o = {'t': to_atoms('<' + err + '>'), 'cnt': [], 'tv': [], 'ds': []}
        h.append({'op': op, 't': o['t'], 'cnt': o['cnt'], 'tv': o['tv'], 'ds': o['ds'], 'err': err, 'cons': cons})
        if err:
            break
    return {'i': to_atoms(src), 'h': h}


def validate(chk, traces, clause, timeout=3000):
    traces = [t for t in traces if t['h']]
    if not traces:
        return
    d = tlc.workdir('%s_trace' % chk.pid)
    with open(os.path.join(d, 'traces.ndjson'), 'w') as f:
        for t in traces:
            f.write(json.dumps({'i': t['i'], 'h': [{'op': e['op'], 't': e['t'], 'cnt': e['cnt'], 'tv': e['tv'], 'ds': e['ds']} for e in t['h']]}) + '\n')
    defs = ['MCSrc == {}', 'MCKinds == {%s}' % ', '.join(tlc.tla_str(k) for k in ALL_KINDS),
            'MCNames == {%s, %s}' % (S('zz'), S('kk*')), 'MCStrs == {%s, %s, %s}' % (S('S t'), S('u'), S('')),
            'MCMat == {%s}' % ', '.join(mat_tla(m) for m in (('X',), (1,), (5, 'Y'), (6,), ('p q', 2, 3), (7,)))]
    cfg = ('SPECIFICATION TSpec\nCONSTANTS\n ESources <- MCSrc\n MaxEdits = 1000\n OpKinds <- MCKinds\n NewNames <- MCNames\n'
           ' NewStrings <- MCStrs\n Material <- MCMat\n TextTargets = TRUE\n RenameItems = TRUE\nINVARIANT Verdict\nCHECK_DEADLOCK FALSE\n')
    tlc.write_mc(d, 'MCET', 'EditsTrace', defs, cfg)
    res = tlc.run(d, 'MCET', timeout=timeout)
    chk.add_tlc('trace', res, 'EditsTrace: %d random edit histories recorded from the real tree' % len(traces))
    verd = {}
    for r in res.records:
        if 'tid' in r:
            verd.setdefault(r['tid'], r)
    if len(verd) != len(traces):
        raise tlc.MachineryError('EditsTrace: %d verdicts for %d traces (%s)' % (len(verd), len(traces), d))
    chk.traces += len(traces)
    for k, t in enumerate(traces, 1):
        v = verd[k]
        chk.case(json.dumps([t['i'], [e['op'] for e in t['h']]]))
        ev = t['h'][v['at'] - 1] if 1 <= v['at'] <= len(t['h']) else None
        cons = [e['cons'] for e in t['h'] if e['cons']]
        if v['verdict'] in ('text', 'search', 'textview', 'descendants') or (v['verdict'] == 'not-enabled' and ev and ev.get('err')):
            chk.violation('%s-%s' % (clause, v['verdict'] if not (ev and ev.get('err')) else 'exception'), {
                'kind': 'history', 'input': from_atoms(t['i']), 'history': [e['op'] for e in t['h'][:v['at']]],
                'shown': [show_op(e['op']) for e in t['h'][:v['at']]], 'observed_text': from_atoms(ev['t']) if ev else None,
                'error': ev.get('err') if ev else None})
        elif v['verdict'] == 'not-enabled':
            raise tlc.MachineryError('driver produced an edit the model does not enable: %r' % (show_op(ev['op']) if ev else None))
        elif cons:
            chk.violation('%s-inconsistent' % clause, {'kind': 'history', 'input': from_atoms(t['i']), 'history': [e['op'] for e in t['h']],
                                                     'inconsistent': cons[0]})

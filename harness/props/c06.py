"""C06 Parsing is total: it terminates with a tree or a diagnostic error."""
import json
import random

import os

from harness import strings as S, obs, tlc
from harness.tlc import from_atoms

CLAUSES = ('C06',)
INV = ['C06_Diagnostic', 'C06_StepBound']


OPEN = {'brace': '{', 'cmdarg': '\\a{', 'optarg': '\\a[', 'env': '\\begin{e}', 'item': '\\begin{itemize}\\item ',
        'math': '$', 'dmath': '\\[', 'menv': '\\begin{equation}'}
CLOSE = {'brace': '}', 'cmdarg': '}', 'optarg': ']', 'env': '\\end{e}', 'item': '\\end{itemize}', 'math': '$',
         'dmath': '\\]', 'menv': '\\end{equation}'}
MATHY = ('math', 'dmath', 'menv')


def deep(depths):
    """nestings alternating two container kinds, closed and unclosed, to the given depths"""
    out = []
    kinds = sorted(OPEN)
    for d in depths:
        for k1 in kinds:
            for k2 in kinds:
                if k1 in MATHY and k2 in MATHY:
                    continue
                if (k1 in MATHY and k2 == 'item') or (k2 in MATHY and k1 == 'item'):
                    continue
                seq = [(k1 if i % 2 == 0 else k2) for i in range(d)]
                op = ''.join(OPEN[k] for k in seq)
                cl = ''.join(CLOSE[k] for k in reversed(seq))
                out.append(op + 'x' + cl)
                out.append(op + 'x')
    return out


def endnest(d):
    """environments nested inside the name group of a mismatched \\end (known finding C06-tolerant-end-nesting)"""
    return '\\begin{a}\\end{' * d + 'x' + '}' * d


def run(chk):
    quick = chk.tier == 'quick'
    rng = random.Random(chk.seed)
    chk.rule = ('TLC enumerates every source over the category alphabet (<= N chars) and the token-kind alphabets '
                '(<= N words), runs the reader machine with tolerance 0 and 1 and checks OutcomeIsDiagnostic + StepBound; '
                'every experiment is replayed on the real parser under a watchdog; corpus, random long strings, mutated '
                'documents and deep nestings are recorded from the real parser and validated by TLC (StringsTrace). '
                'A case is the source string; distinct = distinct sources.')
    scopes = [(S.SC + S.SC_EXTRA, 3), (S.SUB['ign'], S.words_bound(S.SUB['ign'], quick)), (S.ST, 2)]
    for k in ('env', 'args', 'math', 'verb', 'item', 'esc', 'sig', 'names'):
        scopes.append((S.SUB[k], S.words_bound(S.SUB[k], quick)))
    res = S.explore(chk, 'strings', scopes, invariants=INV, timeout=3000, runs='B', sources=deep([6, 14] if quick else [6, 14, 24]))
    S.model_must_hold(chk, res)
    sim = S.explore(chk, 'simulate', [(S.ST + S.SC + S.SC_EXTRA, 22, 6)], invariants=INV, timeout=3000, runs='B', simulate=60 if quick else 120, depth=6000)
    S.model_must_hold(chk, sim)
    bad = S.replay(chk, res.records + sim.records)
    for r in res.records[:6]:
        chk.sample({'source': from_atoms(r['i']), 'strict': r['A']['o'], 'tolerant': r['B']['o']})
    # material TLC did not generate
    docs = S.corpus_sources()
    extra = list(docs)
    extra += S.mutations(rng, docs, 3 if quick else 4, S.SC + S.SC_EXTRA)
    extra += S.random_strings(rng, S.ST + S.SC_EXTRA, 300 if quick else 1000, 5, 30)
    extra += deep([12, 40])
    extra += [endnest(6), endnest(10)]
    extra = list(dict.fromkeys(extra))
    exps = obs.experiments(extra)
    for e in exps:
        chk.case(''.join(e['i']))
    verdicts = S.validate(chk, bad + exps, timeout=3000)
    S.judge(chk, verdicts, CLAUSES, 'parse outcome must be a tree or a diagnostic; no hang, no leak')
    # many more random long strings and mutants: the C06 clause needs no side condition, so these are validated without
    # running the reference machine on them
    more = S.random_strings(rng, S.ST + S.SC_EXTRA + S.SC, 4000 if quick else 20000, 5, 40)
    more += S.mutations(rng, docs, 20 if quick else 60, S.SC + S.SC_EXTRA)
    more += [endnest(12), endnest(40)]       # validated without running the reference machine (it is exponential on these too)
    more = list(dict.fromkeys(more))
    exps2 = obs.experiments(more)
    for e in exps2:
        chk.case(''.join(e['i']))
    S.judge(chk, S.validate(chk, exps2, timeout=3000, label='trace-light', light=True), CLAUSES,
            'parse outcome must be a tree or a diagnostic; no hang, no leak')
    # termination as liveness under weak fairness, in a tiny scope (the safety counterpart StepBound is checked everywhere)
    dl = tlc.workdir('C06_liveness')
    S.mc_strings(dl, 'MC', [(S.SUB['env'][:8], 2), (S.SUB['item'][:8], 2)], (), [], dump=False, runs='B')
    cfg = open(os.path.join(dl, 'MC.cfg')).read().replace('SPECIFICATION Spec', 'SPECIFICATION FairSpec').replace('PROPERTY LexProgressP', 'PROPERTY LexProgressP\nPROPERTY Terminates')
    open(os.path.join(dl, 'MC.cfg'), 'w').write(cfg)
    lres = tlc.run(dl, 'MC', timeout=1200)
    chk.add_tlc('liveness', lres, 'Strings (FairSpec): every started experiment terminates (~>), tiny scope')
    if lres.violated:
        raise tlc.MachineryError('liveness property Terminates violated in the model: %s' % lres.violated)
    # the known finding at specification level: the reader machine itself exceeds the linear step bound on this family
    ex = S.explore(chk, 'endnest-exhibit', [], invariants=['C06_StepBound'], sources=[endnest(9)], runs='B', timeout=600)
    chk.notes['known_finding_exhibited_by_TLC'] = {'source': 'endnest(9)', 'invariant_violated_in_model': ex.violated}
    chk.exhaustive = False
    chk.assumptions += ['diagnostic set = {EOFError, TypeError, AssertionError}; which one is raised is not constrained',
                        'hang watchdog %.0fs per parse' % obs.HANG_S,
                        'RecursionError is treated as a leak up to nesting depth 40 (deeper is out of scope)']


def replay(chk, path):
    case = json.load(open(path))
    ex = obs.experiment(case['input'])
    verdicts = S.validate(chk, [ex])
    S.judge(chk, verdicts, CLAUSES)
    print(json.dumps({'input': case['input'], 'A': ex['A']['o'], 'B': ex['B']['o'], 'C': ex['C']['o']}))
    return chk.finish()

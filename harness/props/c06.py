"""C06 Parsing is total: it terminates with a tree or a diagnostic error."""
import json
import random

from harness import strings as S, obs
from harness.tlc import from_atoms

CLAUSES = ('C06',)
INV = ['C06_Diagnostic', 'C06_StepBound']


def deep(kinds, depths):
    out = []
    for d in depths:
        for k in kinds:
            if k == 'brace':
                out += ['{' * d + 'x' + '}' * d, '{' * d + 'x']
            elif k == 'bracket':
                out += ['\\a' + '[' * d + 'x' + ']' * d, '\\a[{' * d + 'x' + '}]' * d]
            elif k == 'env':
                out += ['\\begin{e}' * d + 'x' + '\\end{e}' * d, '\\begin{e}' * d + 'x']
            elif k == 'item':
                out += ['\\begin{itemize}\\item ' * d + 'x' + '\\end{itemize}' * d]
            elif k == 'math':
                out += ['${' * d + 'x' + '}$' * d, '\\a{$' * d + 'x' + '$}' * d]
            elif k == 'cmd':
                out += ['\\a{' * d + 'x' + '}' * d, '\\a{\\b[' * d + 'x' + ']}' * d]
    return out


def run(chk):
    quick = chk.tier == 'quick'
    rng = random.Random(chk.seed)
    chk.rule = ('TLC enumerates every source over the category alphabet (<= N chars) and the token-kind alphabets '
                '(<= N words), runs the reader machine with tolerance 0 and 1 and checks OutcomeIsDiagnostic + StepBound; '
                'every experiment is replayed on the real parser under a watchdog; corpus, random long strings, mutated '
                'documents and deep nestings are recorded from the real parser and validated by TLC (StringsTrace). '
                'A case is the source string; distinct = distinct sources.')
    scopes = [('sc', S.SC + S.SC_EXTRA, 3 if quick else 4), ('ign', S.SUB['ign'], 4 if quick else 5),
              ('st', S.ST, 2 if quick else 3)]
    for k in ('env', 'args', 'math', 'verb', 'item', 'esc', 'sig'):
        scopes.append((k, S.SUB[k], 3 if quick else 5))
    bad = []
    for label, words, n in scopes:
        res = S.explore(chk, label, words, n, invariants=INV, timeout=3000)
        chk.notes.setdefault('tlc_invariants_violated', [])
        if res.violated:
            chk.notes['tlc_invariants_violated'] += ['%s:%s' % (label, v) for v in res.violated]
        bad += S.replay(chk, res.records)
        for r in res.records[:2]:
            chk.sample({'source': from_atoms(r['i']), 'strict': r['A']['o'], 'tolerant': r['B']['o']})
    # material TLC did not generate
    docs = S.corpus_sources()
    extra = list(docs)
    extra += S.mutations(rng, docs, 3 if quick else 40, S.SC + S.SC_EXTRA)
    extra += S.random_strings(rng, S.ST + S.SC_EXTRA, 300 if quick else 20000, 5, 30)
    extra += deep(['brace', 'bracket', 'env', 'item', 'math', 'cmd'], [10, 20, 40])
    extra = list(dict.fromkeys(extra))
    exps = obs.experiments(extra)
    for e in exps:
        chk.case(''.join(e['i']))
    verdicts = S.validate(chk, bad + exps, timeout=3000)
    S.judge(chk, verdicts, CLAUSES, 'parse outcome must be a tree or a diagnostic; no hang, no leak')
    chk.exhaustive = False
    chk.assumptions += ['diagnostic set = {EOFError, TypeError, AssertionError}; which one is raised is not constrained',
                        'hang watchdog %.0fs per parse' % obs.HANG_S,
                        'RecursionError is treated as a leak up to nesting depth 40 (deeper is out of scope)']


def replay(chk, path):
    case = json.load(open(path))
    ex = obs.experiment(case['input'])
    verdicts = S.validate(chk, [ex])
    S.judge(chk, verdicts, CLAUSES)
    print(json.dumps({'input': case['input'], 'A': ex['A']['o'], 'B': ex['B']['o'], 'C': ex['C']['o']}))
    return chk.finish()

"""C02 The parse tree mirrors the construct structure of the document."""
import json

from harness import docs as D, tlc
from harness.tlc import from_atoms
from harness.props import c01

INV = ['C02_Structure', 'C01_RoundTrip', 'OutcomeIsDiagnostic']


def check_doc(args):
    rec, skip = args
    src = from_atoms(rec['i'])
    soup, o = D.observe_doc(src, skip)
    if o['o'] != 'ok':
        return [('C02-parse', {'outcome': o['o']})], False
    bad = []
    if o['abs'] != rec['abs']:
        bad.append(('C02-structure', {'tree': repr(soup.expr)[:500]}))
    return bad, o['flat'] != rec['flat']


def scopes(chk):
    quick = chk.tier == 'quick'
    sc = c01.scopes(chk)
    sc.append(('defs', {'Budget': 3, 'TextPool': ['a', ' ', '['], 'ComPool': [], 'MathKinds': ['$'], 'MEnvNames': [],
                        'VerbNames': [], 'Leaves': D.DEF_LEAVES + [D.leaf_cmd('def', ('{', 'a'), ('{', 'b')), D.leaf_cmd('section', ('{', 't')), D.leaf_cmd('section', ('[', 's'), ('{', 't')),
                                                   D.leaf_cmd('textbf', ('{', 'b')), D.leaf_cmd('label', ('{', 'k')), 'Cmd(%s, <<>>)' % D.S('noindent')],
                        'ListNames': ['itemize'], 'MaxSib': 3, 'CmdNames': ['a', 'nm'], 'MaxArgs': 2}))      # \nm is also USED, with arguments
    return sc


def run(chk):
    chk.rule = ('TLC generates every well-formed document within the node budget; the generating syntax tree is the oracle. TLC '
                'checks StructureWF on the reader machine (abstract machine tree = oracle); each document is replayed on the real '
                'parser and the abstract projection of the real tree (names, argument kinds/order/contents, nesting, item '
                'ownership; adjacent text leaves merged, comments kept apart) must equal the oracle. A case is a document.')
    sims = [('simulate', {'Budget': 12, 'MaxDepth': 5, 'MaxSib': 4}, 300 if chk.tier == 'quick' else 6000)]
    for label, pools, *sim in [(a, b) for a, b in scopes(chk)] + sims:
        recs, p = D.generate(chk, label, pools, INV, simulate=sim[0] if sim else None, depth=600 if sim else None)
        c01.replay_docs(chk, recs, p['UserSkipG'], check_doc, 'abstract tree must equal the generating syntax tree')
        for r in sorted(recs, key=lambda r: -len(r['i']))[:2]:
            chk.sample({'source': from_atoms(r['i']), 'oracle_abs': ''.join(r['abs'])})
    chk.exhaustive = False
    chk.assumptions += ['"text run not split" is read at the level of concatenated adjacent text leaves',
                        'well-formed = derivable by DocGen under the guards G1..G11']


def replay(chk, path):
    case = json.load(open(path))
    return D.replay_case(chk, case, 'C02-structure')

"""C08 Serialisation conserves the characters of any parseable input."""
import json
import random

from harness import strings as S, obs

CLAUSES = ('C08',)
INV = ['C08_Conserves']
NOIGN = [w for w in S.SC + S.SC_EXTRA if w not in ('\x00', '\x7f')]


def scopes(quick):
    sc = [(NOIGN, 3), (S.ST, 2)]
    for k in ('env', 'args', 'math', 'verb', 'item', 'esc', 'sig', 'names'):
        sc.append((S.SUB[k], S.words_bound(S.SUB[k], quick)))
    return sc


def extras(chk, quick):
    rng = random.Random(chk.seed + 8)
    docs = S.corpus_sources()
    extra = list(docs) + S.regression_inputs(('C08', 'C09', 'C01'))
    extra += S.mutations(rng, docs, 3 if quick else 12, NOIGN)
    extra += S.random_strings(rng, S.ST, 300 if quick else 3000, 4, 25)
    return [s for s in extra if '\x00' not in s and '\x7f' not in s]


def twin_documents(chk):
    """commands with three argument groups two of which are textually equal (DocGen)"""
    from harness import docs as D
    from harness.tlc import from_atoms
    p = {'MEnvNames': [], 'VerbNames': [], 'Leaves': [], 'Labels': [''], 'ComPool': [], 'ListNames': [], 'MathKinds': [], 'Budget': 7, 'Seps': [''],
         'TextPool': ['c', 't'], 'MathTextPool': ['x'], 'EnvNames': [], 'CmdNames': ['a'], 'MaxSib': 1, 'MaxArgs': 3, 'MaxDepth': 3}
    recs, _ = D.generate(chk, 'twinargs', p, ['C02_Structure'])
    return [from_atoms(r['i']) for r in recs]


def run(chk):
    quick = chk.tier == 'quick'
    chk.rule = ('TLC enumerates every source over the token-kind alphabets (<= N words, no NUL/DEL), runs the reader '
                'machine and checks Conserves(source, output) whenever the strict run succeeds and the reference run '
                'never had to re-brace a bare mandatory argument; every experiment is replayed on the real parser; corpus, '
                'mutated documents and random long strings parsed by the real code are validated by TLC on the recorded '
                'output. A case is a source string.')
    S.standard(chk, scopes(quick), INV, CLAUSES,
               'output must consist of the input characters in order; only whitespace before { or [ may vanish',
               extra_sources=extras(chk, quick), runs='', sources=twin_documents(chk), simulate_words=[w for w in S.ST + NOIGN])
    chk.assumptions += ['side condition "mandatory arguments of \\def \\textbf \\section \\label are brace-delimited" is '
                        'decided by the reference machine: no re-bracing step fires on the source',
                        'NUL/DEL-free sources only']


def replay(chk, path):
    case = json.load(open(path))
    ex = obs.experiment(case['input'])
    S.judge(chk, S.validate(chk, [ex]), CLAUSES)
    print(json.dumps({'input': case['input'], 'A': ex['A']['o'], 'out': ''.join(ex['A']['out'])}))
    return chk.finish()

"""C13 Recorded source positions are true offsets."""
import json
import os
import re

from harness import docs as D, tlc, obs, docstrace
from harness.tlc import from_atoms
from harness.props import c01

INV = ['C13_Positions', 'C13_Regex', 'C01_Slices', 'C19_TokPosG']


def check_doc(args):
    rec, skip = args
    src = from_atoms(rec['i'])
    soup, o = D.observe_doc(src, skip)
    if o['o'] != 'ok':
        return [('C13-parse', {'outcome': o['o']})], False
    bad = []
    if o['nodes'] != rec['nodes']:
        bad.append(('C13-node-positions', {'got': o['nodes'][:8], 'want': rec['nodes'][:8]}))
    for pos, text in o['texts']:
        if text and (pos < 0 or src[pos:pos + len(text)] != text):
            bad.append(('C13-text-position', {'text_token': text, 'position': pos}))
            break
    for npos, tpos, text in o['text_nodes']:
        if text and tpos is not None and tpos >= 0 and npos != tpos:
            bad.append(('C13-text-node-position', {'text': text, 'node_position': npos, 'token_position': tpos}))
            break
    # line / column of every offset
    line = col = 0
    for k, ch in enumerate(src):
        got = tuple(soup.char_pos_to_line(k))
        if got != (line, col):
            bad.append(('C13-linecol', {'offset': k, 'got': list(got), 'want': [line, col]}))
            break
        if ch == '\n':
            line, col = line + 1, 0
        else:
            col += 1
    # search_regex for the fixed family
    for ent in rec['rx']['w']:
        w = from_atoms(ent['w'])
        got = [(m.position, str(m)) for m in soup.search_regex(re.escape(w))]
        if [g[0] for g in got] != ent['at'] or any(g[1] != w for g in got):
            bad.append(('C13-regex', {'pattern': w, 'got': got[:8], 'want_offsets': ent['at'][:8]}))
            break
    for ent in rec['rx']['r']:
        c = ent['c']
        got = [[m.position, len(str(m))] for m in soup.search_regex(re.escape(c) + '+')]
        if c == ' ':
            # blanks that form a token of their own are not part of the text view: for runs of blanks every REPORTED match must
            # sit at its true offset and the reported matches must be among the expected ones
            if any(src[p0:p0 + n] != ' ' * n for p0, n in got) or any(g not in ent['at'] for g in got):
                bad.append(('C13-regex', {'pattern': ' +', 'got': got[:8], 'want_among': ent['at'][:8]}))
                break
            continue
        if got != ent['at']:
            bad.append(('C13-regex', {'pattern': c + '+', 'got': got[:8], 'want': ent['at'][:8]}))
            break
    return bad, o['flat'] != rec['flat']


def _lc(rec):
    from TexSoup import TexSoup
    s = from_atoms(rec['s'])
    soup = TexSoup(s)
    got = [list(soup.char_pos_to_line(k)) for k in range(len(s))]
    # a second sweep in descending order and a fresh object per query must agree (no dependence on earlier lookups)
    back = [list(soup.char_pos_to_line(k)) for k in reversed(range(len(s)))][::-1]
    return got, back


def linecol(chk, n):
    d = tlc.workdir('C13_linecol')
    tlc.write_mc(d, 'MCLC', 'LineCol', ['MCChars == {"a", "\\n"}'],
                 'SPECIFICATION LSpec\nCONSTANTS\n LChars <- MCChars\n MaxLen = %d\nINVARIANT Consistent\nINVARIANT LDump\nCHECK_DEADLOCK FALSE\n' % n)
    res = tlc.run(d, 'MCLC', timeout=1800)
    chk.add_tlc('linecol', res, 'LineCol: all strings over {a, LF} up to length %d' % n)
    if res.violated:
        raise tlc.MachineryError('LineCol violated %s' % res.violated)
    recs = [r for r in res.records if 'lc' in r]
    out = obs.pmap(_lc, recs)
    for r, (got, back) in zip(recs, out):
        s = from_atoms(r['s'])
        chk.case('lc:' + s)
        if got != r['lc'] or back != r['lc']:
            k = next(i for i in range(len(s)) if got[i] != r['lc'][i] or back[i] != r['lc'][i])
            chk.violation('C13-linecol', {'kind': 'linecol', 'input': s, 'offset': k, 'got': got[k], 'got_descending_sweep': back[k], 'want': r['lc'][k]})
    chk.count('linecol_strings', len(recs))


def _tok(rec):
    from TexSoup.utils import Token
    src = from_atoms(rec['s'])
    p, n, op = rec['p'], rec['n'], rec['op']
    t = Token(src[p:p + n], p)
    k = op[0]
    try:
        if k == 'index':
            r = t[int(op[1])]
        elif k == 'slice':
            r = t[int(op[1]):int(op[2])]
        elif k in ('strip', 'lstrip', 'rstrip'):
            chars = ''.join(from_atoms(op[1:])) or None
            r = getattr(t, k)(chars) if chars else getattr(t, k)()
        elif k == 'item':
            r = list(iter(t))[int(op[1])]
        elif k == 'addright':
            m = int(op[1])
            r = t + Token(src[p + n:p + n + m], p + n)
            r2 = t + src[p + n:p + n + m]
            if (str(r2), r2.position) != (str(r), r.position):
                return {'got': [str(r2), r2.position], 'note': 'token + str differs from token + token'}
        elif k == 'addleft':
            m = int(op[1])
            r = src[p - m:p] + t
        else:
            return {'got': 'unknown op'}
    except Exception as e:   # noqa
        return {'got': 'exc:' + type(e).__name__}
    want = from_atoms(rec['t'])
    if str(r) != want or (want != '' and r.position != rec['q']):
        return {'got': [str(r), r.position], 'want': [want, rec['q']]}
    return None


def token_arith(chk, quick):
    d = tlc.workdir('C13_token')
    srcs = ['ab a', ' a  ', 'aa\na', 'xax', ' \t b'] if quick else ['ab a', ' a  ', 'aa\na', 'xax', ' \t b', 'abab ', '  ', 'a', 'ba ab']
    defs = ['MCSrc == {%s}' % ', '.join(tlc.tla_seq(x) for x in srcs), 'MCStrip == {{}, {"a"}, {"a", " "}, {"x", "b"}}']
    tlc.write_mc(d, 'MCT', 'TokenArith', defs, 'SPECIFICATION Spec\nCONSTANTS\n TSources <- MCSrc\n StripSets <- MCStrip\nINVARIANT SliceTrue\nINVARIANT Dump\nCHECK_DEADLOCK FALSE\n')
    res = tlc.run(d, 'MCT', timeout=1800)
    chk.add_tlc('token', res, 'TokenArith: every window of %d sources x index / slice / strip family / iteration / concatenation' % len(srcs))
    if res.violated:
        raise tlc.MachineryError('TokenArith violated %s' % res.violated)
    recs = [r for r in res.records if 'op' in r]
    out = obs.pmap(_tok, recs)
    for r, b in zip(recs, out):
        chk.case('tok:%s:%d:%d:%s' % (''.join(r['s']), r['p'], r['n'], r['op']))
        if b:
            chk.violation('C13-token-offset', {'kind': 'token', 'source': from_atoms(r['s']), 'token': from_atoms(r['s'])[r['p']:r['p'] + r['n']],
                                               'token_position': r['p'], 'op': r['op'], 'mismatch': b})
    chk.count('token_operations', len(recs))


def _bare(src):
    """offsets of text tokens, text nodes and regex matches on a source whose commands take unbraced arguments"""
    soup, o = D.observe_doc(src)
    if o['o'] != 'ok':
        return None
    for pos, text in o['texts']:
        if text and (pos is None or pos < 0 or src[pos:pos + len(text)] != text):
            return ('C13-text-position', {'text_token': text, 'position': pos})
    for npos, tpos, text in o['text_nodes']:
        if text and npos != tpos:
            return ('C13-text-node-position', {'text': text, 'node_position': npos, 'token_position': tpos})
    try:
        ms = [(m.position, str(m)) for m in soup.search_regex('[a-z]+')]
    except Exception as e:    # noqa
        return ('C13-regex', {'pattern': '[a-z]+', 'raised': type(e).__name__})
    for pos, m in ms:
        if pos is None or src[pos:pos + len(m)] != m:
            return ('C13-regex', {'pattern': '[a-z]+', 'match': m, 'position': pos})
    return ()


def bare_args(chk, quick):
    """sources in which fixed-signature commands take unbraced arguments (outside the generator's well-formed shapes):
    TLC enumerates them, the machine parses them (its text leaves carry their offsets), the code's offsets must be true"""
    from harness import strings as S
    words = ['\\def', '\\textbf', '\\section', '\\label', '\\a', '{', '}', '[', ']', 'x', ' ', 'ab c', '\\foo', '\n', '$', 'k']
    res = S.explore(chk, 'bare', [(words, 3 if quick else 4)], invariants=['C19_TokPos'], runs='', timeout=1800)
    S.model_must_hold(chk, res)
    srcs = [from_atoms(r['i']) for r in res.records if r['A']['o'] == 'ok']
    out = obs.pmap(_bare, srcs)
    n = 0
    for src, b in zip(srcs, out):
        if b is None:
            continue
        n += 1
        chk.case('bare:' + src)
        if b:
            chk.violation(b[0], dict(b[1], kind='bare-args', input=src))
    chk.count('bare_argument_sources', n)


def run(chk):
    quick = chk.tier == 'quick'
    chk.rule = ('TLC generates every well-formed document within the budget with the offset of every node (Unparse) and the '
                'expected matches of a fixed regex family over the text view, and checks PositionsTrue on the machine; the real '
                'node.position / token positions / char_pos_to_line(i) for every i / search_regex offsets are compared with them; '
                'LineCol.tla enumerates all strings over {letter, LF} up to length N with the expected (line, column) of every '
                'offset, replayed in ascending and descending lookup order; corpus documents are validated by TLC (DocsTrace). '
                'A case is a document or a string.')
    bare = 'Cmd(%s, << Cmd(%s, <<>>), Grp("{", << T(%s) >>, <<>>) >>)' % (tlc.tla_seq('def'), tlc.tla_seq('nm'), tlc.tla_seq('v'))
    bare2 = 'Cmd(%s, << Cmd(%s, <<>>) >>)' % (tlc.tla_seq('textbf'), tlc.tla_seq('nm'))
    for label, pools in [('docs', {'Budget': 3 if quick else 4, 'Leaves': D.BASE['Leaves'] + [bare, bare2]}),
                         ('brackets', {'Budget': 3, 'TextPool': ['[a, b] [c, d]', 'see [1] ', 'x ] y'], 'ComPool': ['n'], 'MathKinds': ['$'], 'MEnvNames': [],
                                       'VerbNames': [], 'Leaves': [], 'ListNames': [], 'CmdNames': ['a'], 'MaxSib': 3}),
                         ('lines', {'Budget': 4, 'TextPool': ['a', '\n', 'b c\nx', ' ', 'aa a'], 'ComPool': ['a'], 'MathKinds': ['$'],
                                    'MEnvNames': [], 'VerbNames': ['verbatim'], 'VerbBodies': ['a\nxx a'], 'Leaves': [], 'ListNames': [], 'MaxSib': 3})]:
        recs, p = D.generate(chk, label, pools, [i for i in INV if i != 'C19_TokPosG'])
        c01.replay_docs(chk, recs, p['UserSkipG'], check_doc, 'positions, line/column and regex offsets')
        for r in sorted(recs, key=lambda r: -len(r['i']))[:2]:
            chk.sample({'source': from_atoms(r['i']), 'nodes': r['nodes']})
    bare_args(chk, quick)
    linecol(chk, 9 if quick else 13)
    token_arith(chk, quick)
    srcs = []
    for s in D.corpus_docs():
        soup, o = D.observe_doc(s)
        if o['o'] == 'ok' and '\r' not in s:
            srcs.append(s)
    docstrace.validate_sources(chk, srcs, ('C13pos', 'C13lc'))
    chk.exhaustive = False
    chk.assumptions += ['LF line structure', 'regex family: literal words and maximal runs c+ (other regex semantics are Python\'s re)']


def replay(chk, path):
    case = json.load(open(path))
    if case.get('kind') == 'linecol':
        from TexSoup import TexSoup
        s = case['input']
        print(json.dumps([list(TexSoup(s).char_pos_to_line(k)) for k in range(len(s))]))
        return 0
    if case.get('kind') == 'corpus':
        docstrace.validate_sources(chk, [case['input']], ('C13pos', 'C13lc'))
        return chk.finish()
    soup, o = D.observe_doc(case['input'], case.get('skip_envs', ()))
    print(json.dumps({'nodes': o.get('nodes'), 'texts': o.get('texts')}))
    return 0

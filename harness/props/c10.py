"""C10 Comments are inert."""
import json

from harness import docs as D
from harness.tlc import from_atoms
from harness.props import c01

INV = ['C01_RoundTrip', 'C02_Structure', 'C03_Search', 'OutcomeIsDiagnostic']
HOSTILE = ['be}', '|}', 'x\x0c}', '}', '{', ']', '[', '$', '\\a{x}', '\\end{e}', '\\begin{e}', '\\item', '%', 'x\\', '\\a{', '\\]', '\\)', '\\end{itemize}',
           '\\end{equation}', '', '\\end{verbatim}', '\\end{lstlisting}',
           '$$', ' c d', '\\begin{verbatim}', '\\[', '\\(', '\\end{Verbatim}', '\\end{verbatimtab}', '\\end{listing}', '\\begin{lstlisting}']
NAMES = ['end', 'begin', 'item', 'a', 'e', 'verbatim', '\\a{x}', '\\end{e}']


def check_doc(args, pfx='C10'):
    rec, skip = args
    src = from_atoms(rec['i'])
    soup, o = D.observe_doc(src, skip)
    if o['o'] != 'ok':
        return [(pfx + '-parse', {'outcome': o['o']})], False
    bad = []
    if o['out'] != src:
        bad.append((pfx + '-text', {'out': o['out']}))
    if o['abs'] != rec['abs']:
        bad.append((pfx + '-tree-depends-on-payload', {'tree': repr(soup.expr)[:400]}))
    # tolerance changes nothing on a document that parses strictly (C07 clause 1, evaluated on the same documents)
    soup1, o1 = D.observe_doc(src, skip, tolerance=1)
    if o1['o'] != 'ok' or o1['out'] != o['out'] or o1['flat'] != o['flat']:
        bad.append((pfx + '-tolerant-parse-differs', {'tolerant_outcome': o1['o'], 'tolerant_out': o1.get('out')}))
    for ent in rec['find']:
        if ent['root'] != -1:
            continue
        for qr in ent['res']:
            q = from_atoms(qr['q'])
            got = sorted(n.position for n in soup.find_all(q))
            if soup.count(q) != len(qr['pos']):
                bad.append((pfx + '-search', {'query': q, 'count': soup.count(q), 'want': len(qr['pos'])}))
                break
            if got != sorted(qr['pos']):
                bad.append((pfx + '-search', {'query': q, 'got': got, 'want': sorted(qr['pos'])}))
                break
    return bad, o['flat'] != rec['flat']


def scopes(chk):
    quick = chk.tier == 'quick'
    common = {'ComPool': HOSTILE if not quick else HOSTILE[:18], 'ExtraQueries': NAMES, 'VerbNames': [], 'Leaves': [], 'Seps': ['']}
    sc = []
    p = dict(common)
    p.update({'Budget': 4, 'TextPool': ['\n', '\nx', '\r\nx', '\r', '|x'], 'MathTextPool': ['x', '\n', '\ny'], 'CmdNames': ['a', 'verb'], 'EnvNames': ['e'],
              'ListNames': ['itemize'], 'MathKinds': ['$', '$$', '\\(', '\\['], 'MEnvNames': ['equation'], 'Labels': [''], 'MaxSib': 2, 'MaxArgs': 2})
    sc.append(('contexts', p))
    p = dict(common)
    p.update({'Budget': 3 if quick else 4, 'TextPool': ['\\%', '\\\\', '\\\\\\%x', '\\\\\\\\', '\n', 'x\\%y'], 'MathTextPool': ['x'],
              'CmdNames': [], 'EnvNames': ['e'], 'ListNames': [], 'MathKinds': [], 'MEnvNames': [], 'ComPool': ['c', '}', '\\end{e}', '\\'],
              'MaxSib': 3})
    sc.append(('parity', p))
    # a comment directly after a sizing command (its delimiter stands on the next line)
    p = dict(common)
    p.update({'Budget': 4, 'TextPool': ['\n', '\n('], 'MathTextPool': ['\n( x', '\n', 'x'], 'CmdNames': ['left', 'big', 'Bigg', 'right'], 'EnvNames': [],
              'ListNames': [], 'MathKinds': ['$', '\\['], 'MEnvNames': ['equation'], 'Labels': [''], 'MaxSib': 3, 'MaxArgs': 0,
              'ComPool': ['}', '$', '\\end{equation}', '\\]', 'c', ')', '(', '.', '|', '\\}']})
    sc.append(('sizing', p))
    # a comment between a fixed-signature command and its brace group on the next line (the comment is NOT the argument)
    p = dict(common)
    p.update({'Budget': 4, 'TextPool': ['\n', '\n '], 'MathTextPool': ['x'], 'CmdNames': [], 'EnvNames': ['e'], 'ListNames': [], 'MathKinds': ['$'], 'MEnvNames': [],
              'Labels': [''], 'MaxSib': 4, 'MaxArgs': 1, 'Leaves': ['Cmd(%s, <<>>)' % D.S('textbf'), 'Cmd(%s, <<>>)' % D.S('section'),
                                                                     'Cmd(%s, << Cmd(%s, <<>>) >>)' % (D.S('def'), D.S('nm'))],
              'ComPool': ['c', '}', '{', '$', '\\end{e}']})
    sc.append(('signature', p))
    return sc


def run(chk):
    chk.rule = ('TLC generates documents with the DocGen machine in which comments with every payload of a hostile alphabet '
                '(braces, brackets, dollars, backslashes, \\begin/\\end/\\item, %) stand in every context (top level, environment, '
                'brace / bracket argument, group, item, each math kind), ended by a line break or by end of input, and text runs '
                'with 1..4 backslashes before a %. The oracle tree has one comment leaf "%payload" and is otherwise independent '
                'of the payload; TLC checks the reader machine reproduces it and that names occurring only in payloads are not '
                'found. Each document is replayed on the real parser: exact text, abstract tree = oracle, search for the payload '
                'names = oracle answer. A case is a document.')
    for label, pools in scopes(chk):
        recs, p = D.generate(chk, label, pools, INV)
        c01.replay_docs(chk, recs, p['UserSkipG'], check_doc, 'the tree around a comment does not depend on its payload')
        for r in sorted(recs, key=lambda r: -len(r['i']))[:3]:
            chk.sample(from_atoms(r['i']))
    chk.exhaustive = False
    chk.assumptions += ['a comment inside a container is followed by a line break before the closer (G4)']


def replay(chk, path):
    case = json.load(open(path))
    return D.replay_case(chk, case, 'C10-tree-depends-on-payload')

"""C15 Any history of edits keeps the tree equal to a reference model."""
import json
import random

from harness import edits as E
from harness.tlc import from_atoms
from harness.props import c05

DOCS = ['\\s{a \\t{b \\u{c}}} \\begin{c}\n\\t{T}sub\\end{c}', '\\a{x} b \\a{x} c', '\\begin{e}[\\o{1}]{r} t \\c{ \\d{2} } $m$ {g \\h{4}}\\end{e} z', '\\begin{itemize}\\item i \\j{5} \\item k\\end{itemize}',
        '\\p{\\q{\\r}}\\p{\\q{\\r}}', '{\\a\\a}', '\\textbf{Hello} \\begin{v}q\\end{v} $x$']


def run(chk):
    quick = chk.tier == 'quick'
    rng = random.Random(chk.seed + 15)
    chk.rule = ('Edits.tla IS the reference document model. TLC enumerates every history of N edits (all operation kinds, all valid '
                'targets and indices, fresh nodes and plain strings as material) from small start documents; each history is '
                'replayed step by step on the real tree and after EVERY step the serialised text, search counts, text view and '
                'descendants must equal the model\'s and the C03/C04 clauses are re-evaluated on the edited real tree. Random longer '
                'histories chosen by the driver from the real tree\'s views are validated by TLC (EditsTrace). A case is a history.')
    recs = E.explore(chk, 'depth2', [DOCS[0], DOCS[1], DOCS[3]] if quick else DOCS, 2, E.ALL_KINDS, names=('zz',), strs=('S t',),
                     materials=(('X',), (7,)) if quick else (('X',), (5, 'Y'), (7,)))
    E.replay_all(chk, recs, 'C15')
    # string assignments including the empty string, three deep (the string is read and set again after it was emptied)
    recs3 = E.explore(chk, 'strings3', ['\\begin{c}x\\end{c} \\t{T}'], 3, ['set_string', 'append', 'delete', 'args_append'], names=('zz',), strs=('', 'u'),
                      materials=(('',), ('X',), ('', 1)))
    E.replay_all(chk, recs3, 'C15')
    # an empty string followed by a node in one insert / replace (the node must land right behind the empty piece)
    recs2 = E.explore(chk, 'empty-then-node', ['\\begin{c}x\\end{c} \\t{T}'], 2, ['insert', 'replace_with', 'set_string'], names=('zz',), strs=('', 'u'),
                      materials=(('', 1), ('X',)))
    E.replay_all(chk, recs2, 'C15')
    for r in recs[:1] + recs[-2:]:
        chk.sample({'source': from_atoms(r['i']), 'history': [E.show_op(e['op']) for e in r['h']], 'text_after': from_atoms(r['h'][-1]['obs']['t'])})
    srcs = c05.TWINS
    traces = [E.random_history(rng, rng.choice(srcs), 8 if quick else 14, E.ALL_KINDS) for _ in range(800 if quick else 2500)]
    E.validate(chk, traces, 'C15')
    chk.exhaustive = False
    chk.assumptions += ['new material is always freshly parsed', '\\item is never renamed and nothing is renamed to item',
                        '"mutually consistent" = the C03 and C04 clauses evaluated on the edited real tree + the model\'s counts / text view']


def replay(chk, path):
    return c05.replay(chk, path, 'C15')

"""C12 Math regions are delimited correctly and tolerate unbalanced brackets."""
import json

from harness import docs as D
from harness.tlc import from_atoms, tla_seq as S, tla_str as tlc_str
from harness.props import c01, c10

INV = ['C01_RoundTrip', 'C02_Structure', 'C03_Search', 'OutcomeIsDiagnostic']
MATH_ENVS = ['align', 'align*', 'alignat', 'array', 'displaymath', 'eqnarray', 'eqnarray*', 'equation', 'equation*', 'flalign',
             'flalign*', 'gather', 'gather*', 'math', 'multline', 'multline*', 'split']
PREFIX = ['left', 'right', 'big', 'Big', 'bigg', 'Bigg']
DELIMS = ['(', ')', '<', '>', '[', ']', '{', '}', '\\{', '\\}', '.', '|', '\\langle', '\\rangle', '\\lfloor', '\\rfloor', '\\lceil',
          '\\rceil', '\\ulcorner', '\\urcorner', '\\lbrack', '\\rbrack']
ZERO = ['cup', 'cap', 'in', 'notin', 'infty']
KINDS = ['$', '$$', '\\(', '\\[']


DEF_MATH = ('Cmd(%s, << Grp("{", << Cmd(%s, <<>>) >>, <<>>), Grp("{", << Math("$", << T(%s) >>) >>, <<>>) >>)' % (S('newcommand'), S('nm'), S('x')))
DEF_MATH2 = ('Cmd(%s, << Grp("{", << Cmd(%s, <<>>) >>, <<>>), Grp("{", << T(%s), Math(%s, << T(%s) >>) >>, <<>>) >>)'
             % (S('renewcommand'), S('nm'), S('t'), tlc_str('\\['), S('y')))


def check_doc(args):
    return c10.check_doc(args, 'C12')


def cmd0(name):
    return 'Cmd(%s, <<>>)' % S(name)


def scopes(chk):
    quick = chk.tier == 'quick'
    common = {'ComPool': [], 'Seps': [''], 'VerbNames': [], 'ListNames': ['itemize'], 'Labels': [''], 'ExtraQueries': ['a', 'cup', 'math', 'displaymath', '$', '$$']}
    sc = []
    p = dict(common)
    p.update({'Budget': 3 if quick else 4, 'TextPool': ['t', '\\$', ' ', 't\\\\'], 'MathTextPool': ['x', '(', ')[(', '[0,1)', ']', 'a\\$b', '\\$', 'x\\\\', 'a \\\\[0,1)'],
              'CmdNames': ['a'], 'EnvNames': ['e'], 'MathKinds': KINDS, 'MEnvNames': ['equation', 'align*'],
              'Leaves': [cmd0('cup'), cmd0('in'), DEF_MATH, DEF_MATH2], 'MaxSib': 2, 'MaxArgs': 1, 'MaxDepth': 3})
    sc.append(('bodies', p))
    p = dict(common)
    p.update({'Budget': 3, 'TextPool': ['t'], 'MathTextPool': ['x', '['], 'CmdNames': [], 'EnvNames': [], 'ListNames': [], 'MathKinds': [],
              'MEnvNames': MATH_ENVS, 'Leaves': [cmd0('infty')], 'MaxSib': 2})
    sc.append(('named', p))
    p = dict(common)
    sizing = [cmd0(pf + d) for pf in (PREFIX if not quick else ['left', 'Big', 'bigg']) for d in DELIMS]
    if quick:
        sizing += [cmd0(pf + '(') for pf in ('right', 'big', 'Bigg')]
    p.update({'Budget': 3, 'TextPool': [], 'MathTextPool': ['x'], 'CmdNames': [], 'EnvNames': [], 'ListNames': [], 'MathKinds': ['$'] if quick else ['$', '\\['],
              'MEnvNames': [] if quick else ['equation'], 'Leaves': sizing, 'MaxSib': 2, 'MaxDepth': 2})
    sc.append(('sizing', p))
    p = dict(common)
    p.update({'Budget': 3, 'TextPool': ['t'], 'MathTextPool': ['[', '(', '[0,1)', ']'], 'CmdNames': [], 'EnvNames': [], 'ListNames': [],
              'MathKinds': KINDS, 'MEnvNames': ['gather'], 'Leaves': [cmd0(z) for z in ZERO], 'MaxSib': 3, 'MaxDepth': 3})
    sc.append(('operators', p))
    p = dict(common)
    p.update({'Budget': 3 if quick else 4, 'TextPool': ['t', ' '], 'MathTextPool': ['x'], 'CmdNames': ['a'], 'EnvNames': ['e'], 'MathKinds': KINDS,
              'MEnvNames': ['equation'], 'Leaves': [], 'MaxSib': 3, 'MaxArgs': 1, 'MaxDepth': 3})
    sc.append(('contexts', p))
    p = dict(common)
    p.update({'Budget': 6, 'TextPool': ['t'], 'MathTextPool': ['x'], 'CmdNames': ['a'], 'EnvNames': [], 'ListNames': [], 'MathKinds': ['$'] if quick else KINDS,
              'MEnvNames': [], 'Leaves': [], 'MaxSib': 2, 'MaxArgs': 1, 'MaxDepth': 4, 'ExtraQueries': ['a']})
    sc.append(('nested-math', p))
    # ordinary commands that merely begin like a sizing prefix, next to real sizing commands; brace-less \frac12
    p = dict(common)
    p.update({'Budget': 4, 'TextPool': ['t'], 'MathTextPool': ['12', '_i', ' x'], 'CmdNames': ['bigcup', 'rightarrow', 'leftarrow', 'Biggl', 'frac'], 'EnvNames': [],
              'ListNames': [], 'MathKinds': ['$', '\\['], 'MEnvNames': [], 'Leaves': [cmd0('big['), cmd0('right)'), cmd0('left['), cmd0('Bigg(')],
              'MaxSib': 3, 'MaxArgs': 1, 'MaxDepth': 2, 'ExtraQueries': ['frac', 'bigcup']})
    sc.append(('lookalikes', p))
    # "$a$" directly followed by another "$"-opened region (valid LaTeX; the lexer reads "$$" greedily): known finding C12-adjacent-dollar
    p = dict(common)
    p.update({'Budget': 4, 'TextPool': ['t'], 'MathTextPool': ['x'], 'CmdNames': [], 'EnvNames': [], 'ListNames': [], 'MathKinds': ['$', '$$'], 'MEnvNames': [],
              'Leaves': [], 'MaxSib': 3, 'MaxDepth': 2, 'DollarAdjacent': True, 'ExtraQueries': []})
    sc.append(('adjacent-dollar', p))
    return sc


def run(chk):
    chk.rule = ('TLC generates documents with the DocGen machine in which the four delimiter pairs and all named math environments '
                'stand in every context with bodies over text, commands with brace arguments, groups, escaped dollars, unbalanced '
                '( ) [ ], every sizing command x delimiter, zero-argument operators followed by brackets, and adjacent regions of '
                'different kinds; the oracle has one math node of the right kind per region. TLC checks the reader machine '
                'reproduces it and finds commands inside; each document is replayed on the real parser: exact text, abstract tree '
                '(node kind, name, body) = oracle, search = oracle answer. A case is a document.')
    for label, pools in scopes(chk):
        recs, p = D.generate(chk, label, pools, INV if not pools.get('DollarAdjacent') else [])
        if pools.get('DollarAdjacent'):     # keep the documents that guard G5 would have excluded: an inline region directly followed by '$'
            recs = [r for r in recs if '$$$$' not in from_atoms(r['i']) and ('x$$$x' in from_atoms(r['i']) or 'x$$x' in from_atoms(r['i']))]
        c01.replay_docs(chk, recs, p['UserSkipG'], check_doc, 'one math node of the right kind whose body is the enclosed source')
        for r in sorted(recs, key=lambda r: -len(r['i']))[:2]:
            chk.sample(from_atoms(r['i']))
    chk.exhaustive = False
    chk.assumptions += ['a bracket / brace directly after an ordinary or sizing command or directly after \\begin{name} is outside the '
                        'tolerance clause (it is an argument) - guard G1', 'two regions of the same symmetric kind are never adjacent (G5)']


def replay(chk, path):
    case = json.load(open(path))
    return D.replay_case(chk, case, 'C12-tree-depends-on-payload')

"""C01 Parse -> serialise round trip is lossless on well-formed documents."""
import json

from harness import docs as D, obs, tlc
from harness.tlc import from_atoms

INV = ['C01_RoundTrip', 'C01_Slices', 'OutcomeIsDiagnostic', 'StepBound']


def check_doc(args):
    rec, skip = args
    src = from_atoms(rec['i'])
    soup, o = D.observe_doc(src, skip)
    bad = []
    if o['o'] != 'ok':
        return [('C01-parse', {'outcome': o['o']})], False
    if o['out'] != src:
        bad.append(('C01-roundtrip', {'out': o['out']}))
    for pos, text in o['slices']:
        if pos < 0 or src[pos:pos + len(text)] != text:
            bad.append(('C01-slice', {'node_text': text, 'position': pos, 'source_slice': src[max(pos, 0):max(pos, 0) + len(text)]}))
            break
    for pos, text in o['texts']:
        if pos < 0 or src[pos:pos + len(text)] != text:
            bad.append(('C01-slice', {'text_token': text, 'position': pos}))
            break
    drift = o['flat'] != rec['flat']
    return bad, drift


def replay_docs(chk, recs, skip, fn, what):
    out = obs.pmap(fn, [(r, tuple(skip)) for r in recs])
    for r, (bad, drift) in zip(recs, out):
        src = from_atoms(r['i'])
        chk.case(src)
        for clause, detail in bad:
            d = {'input': src, 'kind': 'generated-document', 'skip_envs': list(skip), 'what': what}
            d.update(detail)
            chk.violation(clause, d)
        if drift and not bad:
            chk.drifted('tree', {'input': src})
    chk.count('documents_replayed', len(recs))


def scopes(chk):
    quick = chk.tier == 'quick'
    sc = [('docs', {'Budget': 3 if quick else 4})]
    sc.append(('crlf', {'Budget': 3 if quick else 4, 'TextPool': ['a\r\nb', '\r\n', 'x\ry', ' ', '\t'], 'ComPool': ['c'], 'MathKinds': ['$'],
                        'MEnvNames': [], 'VerbNames': ['verbatim'], 'VerbBodies': ['x\r\ny'], 'Leaves': [], 'MaxSib': 3}))
    sc.append(('nearkw', {'Budget': 3 if quick else 4, 'TextPool': ['t', ' '], 'ComPool': [], 'MathKinds': ['$'], 'MEnvNames': ['equation'],
                          'VerbNames': ['verbatim'], 'VerbBodies': ['x{ '], 'Leaves': [], 'CmdNames': ['items', 'endx', 'beginx', 'lefty', 'it'],
                          'EnvNames': ['equationx', 'verbatimx', 'itemizes', 'e*'], 'ListNames': ['itemize', 'enumerate'], 'MaxSib': 2}))
    sc.append(('twinargs', {'MEnvNames': [], 'VerbNames': [], 'Leaves': [], 'Labels': [''], 'ComPool': [], 'ListNames': [], 'MathKinds': [], 'Budget': 7,
                            'TextPool': ['c', 't'], 'EnvNames': [], 'CmdNames': ['a'], 'MaxSib': 1, 'MaxArgs': 3, 'MaxDepth': 3}))
    sc.append(('envargs', {'Budget': 4 if quick else 5, 'TextPool': ['a', ' ', '['], 'ComPool': [], 'MathKinds': ['$'], 'MEnvNames': [],
                           'VerbNames': [], 'Leaves': [], 'ListNames': [], 'MaxSib': 2, 'MaxDepth': 3}))
    sc.append(('lists', {'Budget': 5, 'TextPool': ['a', ' ', '\n'], 'ComPool': ['c'], 'MathKinds': ['$'], 'MEnvNames': [],
                         'VerbNames': [], 'Leaves': [], 'EnvNames': [], 'CmdNames': ['a'], 'MaxSib': 3, 'MaxDepth': 3, 'MaxArgs': 1}))
    # definitions whose body holds an unbalanced \\begin / \\end, with and without [n] and starred
    sc.append(('defs', {'Budget': 3, 'TextPool': ['a', ' '], 'ComPool': [], 'MathKinds': ['$'], 'MEnvNames': [], 'VerbNames': [], 'ListNames': [],
                        'Leaves': D.DEF_LEAVES, 'MaxSib': 3, 'CmdNames': ['a', 'nm'], 'MaxArgs': 2}))
    # a user-supplied skip_envs extends the built-in verbatim-like names, it does not replace them
    sc.append(('userskip', {'Budget': 3, 'UserSkipG': ['myverb'], 'VerbNames': ['verbatim', 'lstlisting', 'myverb'], 'VerbBodies': [' $ { ', '\n\\a {x}\n', '100%\nz', 'T \\end{ x', '\\end{$}'],
                            'TextPool': ['t', ' '], 'ComPool': [], 'MathKinds': [], 'MEnvNames': [], 'Leaves': [], 'ListNames': [], 'MaxSib': 2}))
    return sc


def run(chk):
    chk.rule = ('TLC generates every well-formed document of the DocGen grammar within the node budget (all construct kinds, '
                'adjacent arguments), runs the reader machine on it and checks RoundTrip + the slice clause on the machine; '
                'each document is replayed on the real parser: str(TexSoup(src)) == src and the text of every expression and '
                'text token is the slice of the source at its recorded position. Corpus documents parsed by the real code '
                'are validated by TLC (DocsTrace). A case is a document.')
    sims = [('simulate', {'Budget': 12, 'MaxDepth': 5, 'MaxSib': 4}, 300 if chk.tier == 'quick' else 6000)]
    for label, pools, *sim in [(a, b) for a, b in scopes(chk)] + sims:
        recs, p = D.generate(chk, label, pools, INV, simulate=sim[0] if sim else None, depth=600 if sim else None)
        replay_docs(chk, recs, p['UserSkipG'], check_doc, 'round trip and slice clause')
        for r in sorted(recs, key=lambda r: -len(r['i']))[:3]:
            chk.sample(from_atoms(r['i']))
    from harness import docstrace
    docstrace.corpus(chk, ('C01rt', 'C01slice'))
    chk.exhaustive = False
    chk.assumptions += ['well-formed = derivable by DocGen under the guards G1..G11 (DESIGN.md 4.2)',
                        'corpus literals count as well-formed documents only if the real parser accepts them']


def replay(chk, path):
    case = json.load(open(path))
    if case.get('kind') == 'corpus':
        from harness import docstrace
        docstrace.validate_sources(chk, [case['input']], ('C01rt', 'C01slice'))
        return chk.finish()
    rec = {'i': tlc.to_atoms(case['input']), 'flat': []}
    bad, drift = check_doc((rec, tuple(case.get('skip_envs', ()))))
    for clause, detail in bad:
        d = {'input': case['input'], 'kind': 'generated-document', 'skip_envs': case.get('skip_envs', [])}
        d.update(detail)
        chk.violation(clause, d)
    print(json.dumps(bad))
    return chk.finish()

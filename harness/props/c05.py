"""C05 Structural edits are local to the targeted node."""
import json
import random

from harness import edits as E, docs as D
from harness.tlc import from_atoms

TWINS = ['\\x a \\y a \\z', '{ a \\y a }a \\y a ', '\\a{x} b \\a{x} c', '\\a{x}\\a{x}\\a{x}', '\\s[\\a{x}]{\\a{x}}\\a{x}', '\\begin{e}{\\a{x}}\\a{x}\\end{e}',
         '\\begin{itemize}\\item[\\a{x}] \\a{x}\\end{itemize}', '\\p{\\q{\\r}}\\p{\\q{\\r}}', '{\\a\\a}', '$\\a{x}$ {\\a{x}} \\a{x}',
         '\\begin{e}[\\o{1}]{r} t \\c{ \\d{2} } $m \\f{3}$ {g \\h{4}}\\end{e} z', '\\begin{itemize}\\item i \\j{5} \\item k\\end{itemize}',
         '\\textbf{Hello} \\begin{v}q\\end{v} $x$', 'x \\a x \\b x', '\\begin{e}\\begin{e}\\a{x}\\end{e}\\a{x}\\end{e}',
         '\\a{x}{y}{x} t', '\\begin{e}{c}{l}{c}u\\end{e}', '\\sec*{t} \\begin{al*}x\\end{al*}', '\\w{p}{q}{r}{s}', '\\begin{itemize}\\item$x$y \\item\\a{x}b\\end{itemize}', '\\foo[opt] x \\bar[k]', '$\\a + \\b = \\a$ \\[\\a\\a\\]', '\\begin{e}a %c\n\\end{e} {b %c\n}']
MATS = (('X',), (1,), (5, 'Y'), ('p q', 2, 3), ('x', ' ', 'y'), ('\n',))


def start_docs(chk, n):
    rng = random.Random(chk.seed + 5)
    recs, p = D.generate(chk, 'startdocs', {'Budget': 2, 'VerbBodies': ['x']}, ['C02_Structure'])
    srcs = sorted(from_atoms(r['i']) for r in recs)
    rng.shuffle(srcs)
    return TWINS + srcs[:n]


def run(chk):
    quick = chk.tier == 'quick'
    chk.rule = ('The reference document model (Edits.tla) is started on hand-written documents with textual twins (siblings, cousins, '
                'twins inside arguments) and on DocGen documents; TLC enumerates EVERY single structural edit (delete, replace_with, '
                'parent.replace, parent.remove with every non-root node as target; insert at every index and append on every '
                'container; replacement lists of 1..3 nodes/strings) and checks SpliceLocal on the model; each edit is replayed on '
                'a fresh parse of the real tree (target located by identity through the public views) and the serialised text, '
                'search counts, text view and descendants must equal the model\'s. A case is (document, edit).')
    srcs = start_docs(chk, 300 if quick else 711)
    recs = E.explore(chk, 'single', srcs, 1, E.STRUCT, materials=MATS, text_targets=True)
    E.replay_all(chk, recs, 'C05')
    for r in recs[:2] + recs[-2:]:
        chk.sample({'source': from_atoms(r['i']), 'edit': E.show_op(r['h'][0]['op']), 'text_after': from_atoms(r['h'][0]['obs']['t'])})
    chk.exhaustive = False
    chk.assumptions += ['new material is freshly parsed (no aliasing of one expression at two places)',
                        'insert with several items uses non-negative indices (a negative index with several items is not "the requested index")']


def replay(chk, path, clause='C05'):
    """re-run one recorded history on the real tree and let TLC (EditsTrace) judge it against the reference model"""
    case = json.load(open(path))
    from harness.tlc import to_atoms
    from TexSoup import TexSoup
    soup = TexSoup(case['input'])
    E.observe(soup)
    h = []
    for op in case['history']:
        err = E.apply_op(soup, op)
        o = E.observe(soup) if not err else {'t': to_atoms('<' + err + '>'), 'cnt': [], 'tv': [], 'ds': []}
        h.append({'op': op, 't': o['t'], 'cnt': o['cnt'], 'tv': o['tv'], 'ds': o['ds'], 'err': err, 'cons': E.consistency(soup) if not err else []})
        print(json.dumps({'op': E.show_op(op), 'error': err, 'text': str(soup)}))
        if err:
            break
    E.validate(chk, [{'i': to_atoms(case['input']), 'h': h}], clause)
    return chk.finish()

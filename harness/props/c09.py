"""C09 Arguments attach by the one-line-break rule with exact contents."""
import json

from harness import docs as D
from harness.tlc import from_atoms
from harness.props import c01

INV = ['C02_Structure', 'C09_Conserves', 'OutcomeIsDiagnostic']
ATTACH = ['', ' ', '\t', '\n', ' \n ', '  ', '\t\n', '\r', ' \r ']
DETACH_TEXT = ['x', 'é', ' [b]', '\n[b', '\r\n', '\n', '\n\n', '.', '\n\n[', '.[b]', ' \n\n ', ']', '[', ' ', '\n \n']


def args_of(expr, out):
    """(position, [str(arg) ...]) of every command / environment with arguments, document order"""
    from TexSoup.data import TexExpr, TexText, TexCmd, TexNamedEnv
    for a in expr.args:
        if isinstance(a, TexExpr):
            args_of(a, out)
    for x in expr._contents:
        if isinstance(x, (TexCmd, TexNamedEnv)):
            out.append([x.position, [str(a) for a in x.args]])
        if isinstance(x, TexExpr) and not isinstance(x, TexText):
            args_of(x, out)
    return out


def all_groups(expr, out):
    """every argument group of the tree"""
    from TexSoup.data import TexExpr, TexGroup
    for a in expr.args:
        if isinstance(a, TexGroup):
            out.append(a)
        if isinstance(a, TexExpr):
            all_groups(a, out)
    for x in expr._contents:
        if isinstance(x, TexExpr):
            all_groups(x, out)
    return out


def check_doc(args):
    rec, skip = args
    src = from_atoms(rec['i'])
    soup, o = D.observe_doc(src, skip)
    if o['o'] != 'ok':
        return [('C09-parse', {'outcome': o['o']})], False
    bad = []
    for g in all_groups(soup.expr, []):
        if all(isinstance(x, str) for x in g._contents) and g.string != ''.join(str(x) for x in g._contents):
            bad.append(('C09-argument-content', {'group': str(g), 'string': g.string}))
            break
    if o['abs'] != rec['abs']:
        bad.append(('C09-attachment', {'tree': repr(soup.expr)[:400], 'args': args_of(soup.expr, [])[:6]}))
    return bad, o['flat'] != rec['flat']


def scopes(chk):
    quick = chk.tier == 'quick'
    common = {'CmdNames': ['a', 'bb'], 'MEnvNames': [], 'VerbNames': [], 'Leaves': [], 'Labels': [''], 'ComPool': ['c']}
    sc = []
    p = dict(common)
    p.update({'Budget': 4, 'Seps': ATTACH if not quick else ['', ' ', '\n', ' \n ', '\t', '\r'], 'TextPool': ['x', ']', '[', 'a]b'],
              'MathTextPool': ['x', '['], 'MathKinds': ['$'], 'EnvNames': ['e'], 'ListNames': [], 'MaxSib': 2, 'MaxArgs': 3})
    sc.append(('attach', p))
    if not quick:       # one node more with the separators that matter most (budget 5 with all nine separators does not fit in memory)
        p = dict(p)
        p.update({'Budget': 5, 'Seps': ['', '\n', ' \r '], 'TextPool': ['x', ']'], 'MathTextPool': ['x']})
        sc.append(('attach5', p))
    p = dict(common)
    p.update({'Budget': 4, 'Seps': ['', ' '] if quick else ['', ' ', '\n'], 'TextPool': DETACH_TEXT, 'MathTextPool': ['x', '[', '\n\n'], 'MathKinds': ['$'],
              'EnvNames': ['e'], 'ListNames': ['itemize'], 'MaxSib': 3, 'MaxArgs': 2})
    sc.append(('detach', p))
    p = dict(common)
    p.update({'Budget': 5 if quick else 7, 'Seps': ['', '\n'], 'TextPool': ['\n\n'], 'MathTextPool': ['x'], 'MathKinds': [], 'ComPool': [],
              'EnvNames': [], 'ListNames': [], 'CmdNames': ['a'], 'MaxSib': 2, 'MaxArgs': 4 if quick else 7, 'MaxDepth': 2})
    sc.append(('runs', p))
    p = dict(common)
    p.update({'Budget': 5 if quick else 6, 'Seps': [''], 'TextPool': ['x'], 'MathTextPool': ['x'], 'MathKinds': [], 'ComPool': [], 'EnvNames': [], 'ListNames': [],
              'CmdNames': ['section*', 'label*', 'in*', 'defx'], 'MaxSib': 2, 'MaxArgs': 4, 'MaxDepth': 2})
    sc.append(('starred', p))
    return sc


def run(chk):
    chk.rule = ('TLC generates command layouts with the DocGen machine: names outside the signature table, bracket groups then '
                'brace groups, each preceded by a separator from the attaching set (empty, blanks, tab, one line break with '
                'surrounding blanks), detaching material (blank line, punctuation, comment, bare brackets) as sibling text, group '
                'bodies with nested / unbalanced foreign delimiters, in every container context; the oracle tree says which groups '
                'are arguments (AttachRun = the derivation itself). TLC checks the reader machine reproduces it (and conserves the '
                'characters); each layout is replayed on the real parser and the abstract tree (argument kinds, order, exact '
                'contents, following siblings) must equal the oracle. A case is a source.')
    for label, pools in scopes(chk):
        recs, p = D.generate(chk, label, pools, INV)
        c01.replay_docs(chk, recs, p['UserSkipG'], check_doc, 'arguments = maximal run of groups separated by at most one line break')
        for r in sorted(recs, key=lambda r: -len(r['i']))[:3]:
            chk.sample({'source': from_atoms(r['i']), 'oracle_abs': ''.join(r['abs'])})
    chk.exhaustive = False
    chk.assumptions += ['brackets precede braces in the generated runs (as the property states)',
                        'a group directly after an attaching separator after a command is never generated as a sibling (it attaches)']


def replay(chk, path):
    case = json.load(open(path))
    return D.replay_case(chk, case, 'C09-attachment')

"""C07 Tolerant mode is a conservative extension that only inserts closers."""
import json
import random

from harness import strings as S, obs
from harness.props import c08

CLAUSES = ('C07a', 'C07c')
INV = ['C07a_TolerantExtends', 'C07c_OnlyClosers']


def run(chk):
    quick = chk.tier == 'quick'
    rng = random.Random(chk.seed + 7)
    chk.rule = ('TLC enumerates every source over the category and token-kind alphabets (<= N words), runs the reader '
                'machine strictly and tolerantly and checks TolerantExtends and OnlyClosersInserted; every experiment is '
                'replayed on the real parser in both modes; corpus, truncations / single-closer deletions / mutations of '
                'documents and random strings run through the real parser are validated by TLC. A case is a source string.')
    sc = [(S.SC + S.SC_EXTRA, 3 if quick else 4), (S.ST, 2 if quick else 3)]
    for k in ('env', 'args', 'math', 'verb', 'item', 'sig'):
        sc.append((S.SUB[k], 3 if quick else 5))
    docs = S.corpus_sources()
    extra = list(docs) + S.regression_inputs(('C06', 'C07', 'C08'))
    extra += S.mutations(rng, docs, 3 if quick else 40, S.SC)
    extra += S.random_strings(rng, S.ST, 300 if quick else 20000, 4, 25)
    S.standard(chk, sc, INV, CLAUSES,
               'strict ok => tolerant identical; tolerant ok => output = input + inserted closers only',
               extra_sources=extra)
    chk.assumptions += ['(c) is evaluated on sources satisfying the side conditions of C08 (no NUL/DEL, no re-braced bare '
                        'argument) and additionally permits the whitespace normalisation C08 permits (weaker reading)',
                        '(b) closer-loss repair is checked on generated documents by the DocGen part of this check']


def replay(chk, path):
    case = json.load(open(path))
    ex = obs.experiment(case['input'])
    S.judge(chk, S.validate(chk, [ex]), CLAUSES)
    print(json.dumps({'input': case['input'], 'A': ex['A']['o'], 'B': ex['B']['o']}))
    return chk.finish()

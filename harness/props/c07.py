"""C07 Tolerant mode is a conservative extension that only inserts closers."""
import json
import random

from harness import strings as S, obs
from harness.tlc import from_atoms
from harness.props import c08

CLAUSES = ('C07a', 'C07c')
INV = ['C07a_TolerantExtends', 'C07c_OnlyClosers']


def closer_deletions(chk, quick):
    """well-formed documents without math / verbatim / list regions (DocGen) that lost exactly one closer"""
    from harness import docs as D
    from harness.tlc import from_atoms
    pools = {'Budget': 3 if quick else 4, 'TextPool': ['x', ' ', 't u'], 'ComPool': [], 'CmdNames': ['a', 'bb'], 'EnvNames': ['e', 'f'],
             'ListNames': [], 'MathKinds': [], 'MEnvNames': [], 'VerbNames': [], 'Leaves': [], 'Labels': [''], 'MaxSib': 2, 'MaxArgs': 2, 'MaxDepth': 3}
    recs, _ = D.generate(chk, 'wfdocs', pools, ['C01_RoundTrip', 'C02_Structure'])
    out = []
    for r in recs:
        src = from_atoms(r['i'])
        for k, pos, ln in r['nodes']:
            pos, ln = int(pos), int(ln)
            text = src[pos:pos + ln]
            if k == 'group':
                if text.endswith(']') and ']' in src[pos + ln:]:
                    continue        # a later ']' legitimately absorbs the loss (brackets do not nest): outside clause (b)
                out.append(src[:pos + ln - 1] + src[pos + ln:])
            elif k == 'env':
                e = text.rfind('\\end{')
                out.append(src[:pos + e] + src[pos + ln:])
                if pos + ln == len(src):        # the final brace of a trailing \end{name}
                    out.append(src[:-1])
    return list(dict.fromkeys(out))


def run(chk):
    quick = chk.tier == 'quick'
    rng = random.Random(chk.seed + 7)
    chk.rule = ('TLC enumerates every source over the category and token-kind alphabets (<= N words), runs the reader '
                'machine strictly and tolerantly and checks TolerantExtends and OnlyClosersInserted; every experiment is '
                'replayed on the real parser in both modes; corpus, truncations / single-closer deletions / mutations of '
                'documents and random strings run through the real parser are validated by TLC. A case is a source string.')
    sc = [(S.SC + S.SC_EXTRA, 3), (S.ST, 2)]
    for k in ('env', 'args', 'math', 'verb', 'item', 'sig', 'names'):
        sc.append((S.SUB[k], S.words_bound(S.SUB[k], quick)))
    docs = S.corpus_sources()
    extra = list(docs) + S.regression_inputs(('C06', 'C07', 'C08'))
    extra += S.mutations(rng, docs, 3 if quick else 12, S.SC)
    extra += S.random_strings(rng, S.ST, 300 if quick else 3000, 4, 25)
    S.standard(chk, sc, INV, CLAUSES,
               'strict ok => tolerant identical; tolerant ok => output = input + inserted closers only',
               extra_sources=extra, runs='B', simulate_words=S.ST + S.SC)
    # clause (b): one closer lost => strict reports an error, tolerant succeeds
    damaged = closer_deletions(chk, quick)
    res = S.explore(chk, 'closerloss', [], invariants=['C07b_CloserLossRepaired', 'C07c_OnlyClosers'], sources=damaged, timeout=3000, runs='B')
    S.model_must_hold(chk, res)
    S.replay(chk, res.records)
    exps = obs.experiments(damaged)
    for e in exps:
        src = from_atoms(e['i'])
        chk.case('closerloss:' + src)
        if e['A']['o'] == 'ok' or e['B']['o'] != 'ok':
            chk.violation('C07b', {'input': src, 'kind': 'closer-deletion', 'strict': e['A']['o'], 'tolerant': e['B']['o'],
                                   'what': 'a well-formed document that lost one closer: strict must report an error, tolerant must succeed'})
    chk.count('closer_deletions', len(damaged))
    chk.assumptions += ['(c) is evaluated on sources satisfying the side conditions of C08 (no NUL/DEL, no re-braced bare '
                        'argument) and additionally permits the whitespace normalisation C08 permits (weaker reading)',
                        '(b) closer-loss repair is checked on generated documents by the DocGen part of this check']


def replay(chk, path):
    case = json.load(open(path))
    ex = obs.experiment(case['input'])
    S.judge(chk, S.validate(chk, [ex]), CLAUSES)
    print(json.dumps({'input': case['input'], 'A': ex['A']['o'], 'B': ex['B']['o']}))
    return chk.finish()

"""C18 Argument lists behave like Python lists of groups."""
import json
import os
import random

from harness import tlc, obs
from harness.tlc import to_atoms, from_atoms

# values offered to the list: pool objects (with identity) and strings to be coerced
VALS = [
    {'id': 1, 't': '{a}', 'ok': True, 'kind': 'obj'},     # BraceGroup('a')  #1
    {'id': 2, 't': '[b]', 'ok': True, 'kind': 'obj'},     # BracketGroup('b')
    {'id': 3, 't': '{a}', 'ok': True, 'kind': 'obj'},     # BraceGroup('a')  #2 (textual twin of 1)
    {'id': 0, 't': '{x}', 'ok': True, 'kind': 'str'},
    {'id': 0, 't': '[y]', 'ok': True, 'kind': 'str'},
    {'id': 0, 't': '{a}', 'ok': True, 'kind': 'str'},     # a string equal to the twins
    {'id': 0, 't': '{{x}}', 'ok': True, 'kind': 'str'},   # content that itself starts / ends with the delimiter
    {'id': 0, 't': '[a[b]]', 'ok': True, 'kind': 'str'},
    {'id': 0, 't': '{x]', 'ok': False, 'kind': 'str'},
    {'id': 0, 't': 'x', 'ok': False, 'kind': 'str'},
    {'id': 0, 't': '[y}', 'ok': False, 'kind': 'str'},
    # (new values go at the end: the operation table refers to values by index)
    {'id': 4, 't': '{}', 'ok': True, 'kind': 'obj'},      # groups taken from a PARSED document: an empty one ...
    {'id': 5, 't': '{p]q}', 'ok': True, 'kind': 'obj'},   # ... and one whose text the reader splits into several tokens
    {'id': 0, 't': '{}', 'ok': True, 'kind': 'str'},      # the same texts as unparsed strings (equal to the parsed groups)
    {'id': 0, 't': '{p]q}', 'ok': True, 'kind': 'str'},
]
NOV = {'id': 0, 't': '', 'ok': True, 'kind': 'str'}


def op(k, i=0, j=0, st=1, v=None, vs=()):
    return {'k': k, 'i': i, 'j': j, 'st': st, 'v': v or NOV, 'vs': list(vs)}


def all_ops():
    o = []
    for v in VALS:
        o.append(op('append', v=v))
        o.append(op('remove', v=v))
        for i in (-9, -2, -1, 0, 1, 2, 9):
            if v['kind'] == 'obj' and i in (-9, 9) and v['id'] == 3:
                continue
            if v['t'] in ('{}', '{p]q}') and i not in (0, -1):
                continue
            o.append(op('insert', i=i, v=v))
    for v in VALS[:3]:
        o.append(op('contains', v=v))
    good = [v for v in VALS if v['ok']]
    o.append(op('extend', vs=[good[1], good[3]]))
    o.append(op('extend', vs=[good[0], good[2]]))
    o.append(op('extend', vs=[]))
    o.append(op('extend', vs=[good[3], VALS[8]]))           # a malformed string after a good one: rejected as a whole
    o.append(op('extend', j=1, vs=[good[1], good[3]]))      # j = form of the iterable: 0 list, 1 iterator, 2 generator, 3 tuple
    o.append(op('extend', j=2, vs=[good[4], good[0]]))
    o.append(op('extend', j=3, vs=[good[2]]))
    for i in (-4, -1, 0, 1, 5):
        o.append(op('del', i=i))
    for i, v in ((0, VALS[0]), (-1, VALS[3]), (1, VALS[2]), (2, VALS[6]), (0, VALS[8]), (7, VALS[1]), (1, VALS[5])):
        o.append(op('set', i=i, v=v))
    for a, b in ((0, 2), (1, 99), (-2, 99), (1, 1), (2, 1)):
        o.append(op('delslice', i=a, j=b))
    o.append(op('setslice', i=0, j=1, vs=[good[1], good[3]]))
    o.append(op('setslice', i=1, j=99, vs=[good[0]]))
    o.append(op('setslice', i=1, j=1, vs=[good[4], good[2]]))
    o.append(op('setslice', i=0, j=2, vs=[good[3], VALS[9]]))      # one bad string: rejected as a whole
    o.append(op('iadd', vs=[good[3], good[1]]))
    o.append(op('iadd', vs=[good[2]]))
    o.append(op('assign_self'))                              # owner.args = owner.args (store-back of the list the node already owns)
    for i in (-5, -2, -1, 0, 1, 3):
        o.append(op('pop', i=i))
        o.append(op('get', i=i))
    o += [op('reverse'), op('clear'), op('extend_self'), op('pop_default')]
    for a, b, st in ((0, 2, 1), (1, 99, 1), (0, 99, 2), (-2, 99, 1), (0, -1, 1), (0, 99, 1), (2, 1, 1)):
        o.append(op('slice', i=a, j=b, st=st))
    return o


def tla_v(v):
    return '[id |-> %d, t |-> %s, ok |-> %s]' % (v['id'], tlc.tla_seq(v['t']), 'TRUE' if v['ok'] else 'FALSE')


def tla_op(o):
    return '[k |-> %s, i |-> %s, j |-> %s, st |-> %d, v |-> %s, vs |-> <<%s>>]' % (
        tlc.tla_str(o['k']), tlc.tla_val(o['i']), tlc.tla_val(o['j']), o['st'], tla_v(o['v']),
        ', '.join(tla_v(v) for v in o['vs']))


def json_op(o):
    """the op as TLC sees it in a trace file"""
    def jv(v):
        return {'id': v['id'], 't': to_atoms(v['t']), 'ok': v['ok']}
    return {'k': o['k'], 'i': o['i'], 'j': o['j'], 'st': o['st'], 'v': jv(o['v']), 'vs': [jv(v) for v in o['vs']]}


def norm_op(o):
    """op as dumped by TLC (texts as atom lists) -> python op"""
    def nv(v):
        t = from_atoms(v['t'])
        return {'id': v['id'], 't': t, 'ok': v['ok'], 'kind': 'obj' if v['id'] else 'str'}
    return {'k': o['k'], 'i': o['i'], 'j': o['j'], 'st': o['st'], 'v': nv(o['v']), 'vs': [nv(v) for v in o['vs']]}


# ---- real side ------------------------------------------------------------------------------------------
class Real(object):
    def __init__(self, owner='cmd'):
        from TexSoup import TexSoup
        from TexSoup.data import BraceGroup, BracketGroup
        if owner == 'cmd':
            self.soup = TexSoup('\\c')
            self.owner = self.soup.c
            self.pre, self.post = ['\\', 'c'], []
        else:       # the argument list of an ENVIRONMENT: printed between \begin{c} and the body
            self.soup = TexSoup('\\begin{c}\\end{c}')
            self.owner = self.soup.c
            self.pre, self.post = to_atoms('\\begin{c}'), to_atoms('\\end{c}')
        self.args = self.owner.args
        parsed = TexSoup('\\z{}{p]q}').z.args
        self.pool = {1: BraceGroup('a'), 2: BracketGroup('b'), 3: BraceGroup('a'), 4: parsed[0], 5: parsed[1]}
        self.ident = {id(v): k for k, v in self.pool.items()}

    def val(self, v):
        return self.pool[v['id']] if v['id'] else v['t']

    def idof(self, x):
        return str(self.ident.get(id(x), 0))

    def do(self, o):
        from TexSoup.data import TexArgs
        a = self.args
        k = o['k']
        try:
            if k == 'append':
                a.append(self.val(o['v'])); r = ['ok']
            elif k == 'insert':
                a.insert(o['i'], self.val(o['v'])); r = ['ok']
            elif k == 'extend':
                vals = [self.val(v) for v in o['vs']]
                form = o['j']
                a.extend(vals if form == 0 else iter(vals) if form == 1 else (x for x in vals) if form == 2 else tuple(vals)); r = ['ok']
            elif k == 'set':
                a[o['i']] = self.val(o['v']); r = ['ok']
            elif k == 'del':
                del a[o['i']]; r = ['ok']
            elif k == 'delslice':
                del a[o['i']:(None if o['j'] == 99 else o['j'])]; r = ['ok']
            elif k == 'setslice':
                a[o['i']:(None if o['j'] == 99 else o['j'])] = [self.val(v) for v in o['vs']]; r = ['ok']
            elif k == 'iadd':
                self.owner.args += [self.val(v) for v in o['vs']]
                self.args = a = self.owner.args
                r = ['ok']
            elif k == 'assign_self':
                self.owner.args = self.owner.args
                self.args = a = self.owner.args
                r = ['ok']
            elif k == 'extend_self':
                import signal

                def alarm(*_):
                    raise TimeoutError()
                old = signal.signal(signal.SIGPROF, alarm)
                signal.setitimer(signal.ITIMER_PROF, 5)          # CPU seconds, not wall clock
                try:
                    a.extend(a); r = ['ok']
                except TimeoutError:
                    del a[64:]          # the list grew without bound: cut it so that the rest of the report stays small
                    r = ['exc', 'Hang']
                finally:
                    signal.setitimer(signal.ITIMER_PROF, 0)
                    signal.signal(signal.SIGPROF, old)
            elif k == 'pop_default':
                x = a.pop(); r = ['item', self.idof(x)] + to_atoms(str(x))
            elif k == 'remove':
                a.remove(self.val(o['v'])); r = ['ok']
            elif k == 'pop':
                x = a.pop(o['i']); r = ['item', self.idof(x)] + to_atoms(str(x))
            elif k == 'reverse':
                a.reverse(); r = ['ok']
            elif k == 'clear':
                a.clear(); r = ['ok']
            elif k == 'get':
                x = a[o['i']]; r = ['item', self.idof(x)] + to_atoms(str(x))
            elif k == 'slice':
                lo = o['i']
                hi = None if o['j'] == 99 else o['j']
                xs = a[lo:hi:o['st']]
                if not isinstance(xs, TexArgs):
                    r = ['exc', 'slice-is-not-TexArgs']
                else:
                    r = ['list', str(len(xs))]
                    for x in xs:
                        r += [self.idof(x), '|'] + to_atoms(str(x)) + ['|']
            elif k == 'contains':
                r = ['bool', 'T' if self.val(o['v']) in a else 'F']
            else:
                raise ValueError(k)
        except Exception as e:     # noqa
            r = ['exc', type(e).__name__]
        try:
            state = {'texts': [to_atoms(str(x)) for x in list.__iter__(a)], 'ids': [self.idof(x) for x in list.__iter__(a)],
                     'str': to_atoms(str(a)), 'owner': to_atoms(str(self.owner)), 'len': len(a)}
        except BaseException as e:      # noqa   looking at the list must not fail (RecursionError: a list that contains itself)
            state = {'texts': [], 'ids': [], 'str': to_atoms('<%s>' % type(e).__name__), 'owner': [], 'len': -1}
        return r, state


def ids_match(model, real):
    return len(model) == len(real) and all(m == '0' or m == r for m, r in zip(model, real))


def _replay(rec):
    for owner in ('cmd', 'env'):
        b = _replay_on(rec, owner)
        if b:
            b['owner'] = owner
            return b
    return None


def _replay_on(rec, owner):
    try:
        R = Real(owner)
    except BaseException as e:      # noqa   a fresh document cannot even be built any more after the earlier list operations
        return {'step': 0, 'why': 'result', 'op': norm_op(rec['h'][0]['op']), 'got': ['exc', 'fresh-document:' + type(e).__name__], 'want': rec['h'][0]['r'],
                'got_list': [], 'want_list': [], 'got_str': '', 'got_owner': ''}
    for n, ev in enumerate(rec['h']):
        o = norm_op(ev['op'])
        r, st = R.do(o)
        concat = [c for t in ev['texts'] for c in t]
        why = None
        if r != ev['r']:
            why = 'result'
        elif st['texts'] != ev['texts'] or st['len'] != len(ev['texts']):
            why = 'list'
        elif not ids_match(ev['ids'], st['ids']):
            why = 'identity'
        elif st['str'] != concat:
            why = 'str'
        elif st['owner'] != R.pre + concat + R.post:
            why = 'owner'
        if why:
            return {'step': n, 'why': why, 'op': o, 'got': r, 'want': ev['r'], 'got_list': [from_atoms(t) for t in st['texts']],
                    'want_list': [from_atoms(t) for t in ev['texts']], 'got_str': from_atoms(st['str']), 'got_owner': from_atoms(st['owner'])}
    return None


def record_walks(rng, count, length, maxlen=6):
    ops = all_ops()
    traces = []
    for _ in range(count):
        try:
            R = Real('cmd')
        except BaseException as e:      # noqa   earlier list operations left the library unable to build a fresh document
            traces.append({'h': [], 'setup_error': type(e).__name__})
            break
        h = []
        for _ in range(length):
            o = rng.choice(ops)
            if o['k'] in ('append', 'insert') and len(R.args) >= maxlen:
                continue
            if o['k'] in ('extend', 'iadd', 'setslice') and len(R.args) + len(o['vs']) > maxlen:
                continue
            if o['k'] == 'extend_self' and 2 * len(R.args) > maxlen:
                continue
            r, st = R.do(o)
            h.append({'op': json_op(o), 'r': r, 'texts': st['texts'], 'ids': st['ids'], 'str': st['str'], 'owner': st['owner'], '_op': o})
        traces.append({'h': h})
    return traces


def validate(chk, traces, timeout=1800):
    d = tlc.workdir('C18_trace')
    with open(os.path.join(d, 'traces.ndjson'), 'w') as f:
        for t in traces:
            f.write(json.dumps({'h': [{k: v for k, v in e.items() if not k.startswith('_')} for e in t['h']]}) + '\n')
    tlc.write_mc(d, 'MCAT', 'ArgsTrace', ['MCVals == {}', 'MCOps == {}'],
                 'SPECIFICATION TSpec\nCONSTANTS\n Vals <- MCVals\n AOps <- MCOps\n MaxLen = 99\n MaxHist = 0\nINVARIANT Verdict\nCHECK_DEADLOCK FALSE\n')
    res = tlc.run(d, 'MCAT', timeout=timeout)
    chk.add_tlc('trace', res, 'ArgsTrace: %d recorded walks of the real TexArgs' % len(traces))
    verd = {r['tid']: r for r in res.records if 'tid' in r}
    if len(verd) != len(traces):
        raise tlc.MachineryError('ArgsTrace: %d verdicts for %d traces' % (len(verd), len(traces)))
    chk.traces += len(traces)
    for k, t in enumerate(traces, 1):
        v = verd[k]
        if v['verdict'] != 'ok':
            ev = t['h'][v['at'] - 1]
            chk.violation('C18-' + v['verdict'], {'kind': 'walk', 'history': [e['_op'] for e in t['h'][:v['at']]],
                                                 'result': ev['r'], 'list_after': [from_atoms(x) for x in ev['texts']],
                                                 'str': from_atoms(ev['str']), 'owner': from_atoms(ev['owner'])})


def run(chk):
    quick = chk.tier == 'quick'
    rng = random.Random(chk.seed + 18)
    chk.rule = ('TLC explores the Python-list model breadth-first over every list of <= N items from a pool with textual twins '
                'and coercible / malformed strings and the whole operation alphabet (all indices incl. negative and '
                'overshooting); VIEW <<list, op+result>> yields one witness path per (state, operation); each path is replayed '
                'on a real TexArgs owned by a command, comparing result, list contents, identities, str(args) and str(owner) '
                'after every call; random long walks recorded from the real class are validated by TLC (ArgsTrace). '
                'A case is one path.')
    ops = all_ops()

    def within(o, vals):
        ts = [(v['id'], v['t']) for v in vals]
        return all((v['id'], v['t']) in ts for v in [o['v']] + o['vs'] if v is not NOV)
    # quick: lists of <= 3 items over the whole value pool; thorough adds lists of <= 4 items over the first six values
    configs = [('model', VALS, 3)] + ([] if quick else [('model4', VALS[:6], 4)])
    for label, vals, maxlen in configs:
        cops = [o for o in ops if within(o, vals)]
        d = tlc.workdir('C18_' + label)
        defs = ['MCVals == {' + ', '.join(tla_v(v) for v in vals) + '}', 'MCOps == {' + ', '.join(tla_op(o) for o in cops) + '}']
        cfg = ('SPECIFICATION Spec\nCONSTANTS\n Vals <- MCVals\n AOps <- MCOps\n MaxLen = %d\n MaxHist = 40\nVIEW View\n'
               'INVARIANT LenBound\nINVARIANT Dump\nPROPERTY BadStringRejectedAtomically\nPROPERTY ErrorsAreAtomic\nCHECK_DEADLOCK FALSE\n'
               % maxlen)
        tlc.write_mc(d, 'MCA', 'Args', defs, cfg)
        res = tlc.run(d, 'MCA', timeout=6000)
        chk.add_tlc(label, res, 'Args: lists of <= %d items over %d values x %d operations, one path per (state, op)' % (maxlen, len(vals), len(cops)))
        if res.violated:
            raise tlc.MachineryError('Args model violates %s' % res.violated)
        recs = [r for r in res.records if 'h' in r]
        bad = obs.pmap(_replay, recs)
        for r, b in zip(recs, bad):
            chk.case(json.dumps([e['op'] for e in r['h']]))
            if b:
                chk.violation('C18-' + b['why'], {'kind': 'path', 'history': [norm_op(e['op']) for e in r['h'][:b['step'] + 1]], 'mismatch': b})
        chk.count('paths_replayed', len(recs))
        for r in recs[:2] + recs[-3:]:
            chk.sample({'path': [[e['op']['k'], e['op']['i'], from_atoms(e['op']['v']['t']), e['r'][:2], [from_atoms(t) for t in e['texts']]] for e in r['h']]})
    traces = record_walks(rng, 400 if quick else 6000, 30)
    for t in [t for t in traces if t.get('setup_error')]:
        chk.violation('C18-result', {'kind': 'walk', 'history': [], 'mismatch': 'after the earlier walks a fresh document with an empty argument list '
                                     'cannot be built any more: ' + t['setup_error']})
    traces = [t for t in traces if not t.get('setup_error')]
    for t in traces:
        chk.case(json.dumps([e['op'] for e in t['h']]))
    validate(chk, traces)
    chk.exhaustive = False
    chk.assumptions += ['pop with an explicit index; remove / in use the library\'s textual equality (as a Python list of these '
                        'objects would)', 'extend is exercised with well-formed values only (list.extend is not atomic either)',
                        'membership test with a plain string is documented to compare argument *contents* and is not exercised']


def replay(chk, path):
    case = json.load(open(path))
    R = Real()
    h = []
    for o in case['history']:
        r, st = R.do(o)
        h.append({'op': json_op(o), 'r': r, 'texts': st['texts'], 'ids': st['ids'], 'str': st['str'], 'owner': st['owner'], '_op': o})
    validate(chk, [{'h': h}])
    print(json.dumps({'result': h[-1]['r'], 'list': [from_atoms(t) for t in h[-1]['texts']]}))
    return chk.finish()

"""C14 Renaming, re-stringing and re-argumenting change exactly that part."""
import json

from harness import edits as E, obs, proj
from harness.tlc import from_atoms
from harness.props import c05

EMPTYING = ('args_pop', 'args_clear', 'args_slice', 'args_remove', 'args_del', 'args_delslice')
TABLE_NAMES = {'newcommand', 'renewcommand', 'providecommand', 'lstlisting', 'verbatim', 'verbatimtab', 'Verbatim', 'listing',
               'align', 'align*', 'alignat', 'array', 'displaymath', 'eqnarray', 'eqnarray*', 'equation', 'equation*', 'flalign',
               'flalign*', 'gather', 'gather*', 'math', 'multline', 'multline*', 'split', 'itemize'}
FIXED_SIGNATURE = {'def', 'textbf', 'section', 'label', 'cap', 'cup', 'in', 'notin', 'infty', 'noindent', 'item', 'begin', 'end'}


def reparse_check(rec):
    """re-parsing the new text yields a tree that shows the same change: abstract(re-parse) == abstract(edited tree)"""
    from TexSoup import TexSoup
    soup = TexSoup(from_atoms(rec['i']))
    op = rec['h'][0]['op']
    old = str(E.expr_at(soup.expr, op['path']).name)
    if E.apply_op(soup, op):
        return None
    e = E.expr_at(soup.expr, op['path'])
    if op['k'] == 'rename' and (old in FIXED_SIGNATURE or old in TABLE_NAMES or old.startswith(('left', 'right', 'big', 'Big'))):
        return None             # the old name had a special meaning to the parser (definition, math / verbatim environment ...)
    if op['k'] in ('args_append', 'args_set') and from_atoms(op['s']) == '{{':
        return None             # the new argument's content '{z}' is stored as unparsed text: the re-parse reads it as a nested group
    if op['k'] in EMPTYING and len(e.args) == 0:
        return None             # a command that lost all arguments may merge with what follows: not a "same change" case
    if op['k'].startswith('args_') and (str(e.name) in FIXED_SIGNATURE or str(e.name).startswith(('left', 'right', 'big', 'Big'))):
        return None             # the parser gives these names a fixed argument count: other argument lists cannot be re-read
    if op['k'].startswith('args_'):
        kinds = ''.join('[' if type(a).__name__ == 'BracketGroup' else '{' for a in e.args)
        if '{[' in kinds:
            return None         # not of the documented shape "bracket groups followed by brace groups" (C09)
    text = str(soup)
    try:
        again = TexSoup(text)
    except Exception as ex:     # noqa
        return {'why': 'reparse-exception', 'detail': type(ex).__name__, 'text': text}
    if proj.abs_flat(again.expr._contents) != proj.abs_flat(soup.expr._contents):
        return {'why': 'reparse', 'text': text, 'edited': repr(soup.expr)[:300], 'reparsed': repr(again.expr)[:300]}
    return None


def run(chk):
    quick = chk.tier == 'quick'
    chk.rule = ('The reference document model (Edits.tla) is started on twin documents and DocGen documents; TLC enumerates EVERY '
                'single rename (plain identifiers), string assignment (single-argument commands, text-only environments) and '
                'argument-list edit (append, insert, pop, remove, reverse, clear, slices) on every command / environment and checks '
                'the rename splice on the model; each edit is replayed on the real tree: text, search counts for old and new names, '
                'text view and descendants must equal the model\'s, and re-parsing the new text must give the same abstract tree. '
                'A case is (document, edit).')
    srcs = c05.start_docs(chk, 300 if quick else 711)
    recs = E.explore(chk, 'single', srcs, 1, E.PARTS, names=('zz', 'kk*'), strs=('S t', 'u'))
    E.replay_all(chk, recs, 'C14')
    out = obs.pmap(reparse_check, recs)
    for r, b in zip(recs, out):
        if b:
            chk.violation('C14-' + b['why'], {'kind': 'history', 'input': from_atoms(r['i']), 'history': [r['h'][0]['op']],
                                              'shown': [E.show_op(r['h'][0]['op'])], 'mismatch': b})
    for r in recs[:2] + recs[-2:]:
        chk.sample({'source': from_atoms(r['i']), 'edit': E.show_op(r['h'][0]['op']), 'text_after': from_atoms(r['h'][0]['obs']['t'])})
    chk.exhaustive = False
    chk.assumptions += ['\\item is never renamed and nothing is renamed to item', 'new names are plain identifiers outside the parser\'s tables',
                        're-parse clause skipped when an edit leaves a command without any argument (its name may merge with what follows)']


def replay(chk, path):
    return c05.replay(chk, path, 'C14')

"""C19 Categorising and tokenising partition the input."""
import json
import os
import random

from harness import strings as S, obs, tlc
from harness.tlc import from_atoms, to_atoms

CLAUSES = ('C19',)
INV = ['C19_NonEmpty', 'C19_TokPos', 'C19_Partition', 'C19_Complete', 'C17_LexDeterminism', 'PunctOK']


def _range_job(ab):
    """categorize one block of code points; returns RLE [(a, b, cat, ok)]"""
    from TexSoup.category import categorize
    from TexSoup.utils import CC
    a, b = ab
    text = ''.join(map(chr, range(a, b + 1)))
    out = []
    toks = list(categorize(text))
    i = 0
    if len(toks) != len(text):
        return [[a, b, 'COUNT-MISMATCH', False]]
    for k, t in enumerate(toks):
        ok = (str(t) == text[k] and t.position == k and len(str(t)) == 1)
        try:
            cat = CC(t.category).name
        except ValueError:
            cat = 'cat%r' % (t.category,)
        if out and out[-1][2] == cat and out[-1][3] == ok:
            out[-1][1] = a + k
        else:
            out.append([a + k, a + k, cat, ok])
    return out


def code_points(chk):
    blocks = [(a, min(a + 69631, 0x10FFFF)) for a in range(0, 0x110000, 69632)]
    parts = obs.pmap(_range_job, blocks, chunk=1, force=True)
    rle = []
    for p in parts:
        for r in p:
            if rle and rle[-1][2] == r[2] and rle[-1][3] == r[3] and rle[-1][1] + 1 == r[0]:
                rle[-1][1] = r[1]
            else:
                rle.append(list(r))
    d = tlc.workdir('C19_codepoints')
    with open(os.path.join(d, 'ranges.ndjson'), 'w') as f:
        for a, b, cat, ok in rle:
            f.write(json.dumps({'a': a, 'b': b, 'cat': cat, 'ok': bool(ok)}) + '\n')
    tlc.write_mc(d, 'MCCP', 'CodePoints', [], 'SPECIFICATION Spec\nINVARIANT Verdict\nCHECK_DEADLOCK FALSE\n')
    res = tlc.run(d, 'MCCP', workers=1, timeout=900)
    chk.add_tlc('codepoints', res, 'CodePoints: %d recorded category ranges of the real categorizer vs the table' % len(rle))
    v = [r for r in res.records if 'tiles' in r]
    if len(v) != 1:
        raise tlc.MachineryError('CodePoints verdict missing')
    v = v[0]
    chk.traces += 1
    chk.notes['code_point_ranges'] = len(rle)
    chk.case('codepoints:%r' % rle)
    if not v['tiles']:
        bad = [r for r in rle if not r[3]]
        chk.violation('C19-codepoints', {'kind': 'codepoints', 'what': 'category ranges do not tile 0..0x10FFFF with exactly '
                      'one single-character token per code point at its own index', 'ranges': (bad or rle)[:5]})
    elif v['bad']:
        chk.violation('C19-codepoints', {'kind': 'codepoints', 'what': 'category of code points differs from the table',
                                         'ranges': [rle[i - 1] for i in v['bad']][:5]})
    chk.sample({'code_point_ranges': rle[:6]})


CONTEXTS = ('{%sx', ' %s', '$%s$', '%s', 'a%s')      # the character right after a brace / a blank / a math switch / at the start / in a text run
BOUNDARY = [0x09, 0x0b, 0x0c, 0x1c, 0x1f, 0x80, 0x85, 0xa0, 0xad, 0xff, 0x100, 0x200b, 0x2028, 0x2029, 0x3000, 0xd7ff, 0xd800, 0xdfff, 0xe000,
            0xfeff, 0xfffd, 0xffff, 0x10000, 0xe0001, 0x10ffff]


def _plain(s):
    return s.replace('\x00', '').replace('\x7f', '')


def _covers(text):
    """cheap pre-filter (the verdict is TLC's): do the real tokens reproduce the text apart from NUL / DEL?"""
    from TexSoup.tokens import tokenize
    from TexSoup.category import categorize
    try:
        toks = list(tokenize(categorize(text)))
    except Exception:   # noqa
        return False
    return _plain(''.join(str(t) for t in toks)) == _plain(text) and all(len(str(t)) > 0 for t in toks)


def _scan_job(ab):
    """every code point of a block at token boundaries; returns the code points that need a closer look"""
    a, b = ab
    sus = []
    for ctx in CONTEXTS:
        if _covers('\n'.join(ctx % chr(c) for c in range(a, b + 1))):
            continue
        for c in range(a, b + 1):
            if not _covers(ctx % chr(c)):
                sus.append([c, ctx])
    return sus


def boundary_sources(chk):
    """sources that put single code points at token boundaries: a fixed list of boundary code points in every context, plus
    every code point for which the pre-filter over ALL code points saw tokens that do not reproduce the text"""
    blocks = [(a, min(a + 4095, 0x10FFFF)) for a in range(0, 0x110000, 4096)]
    sus = [x for part in obs.pmap(_scan_job, blocks, chunk=4, force=True) for x in part]
    chk.count('code_points_scanned_at_token_boundaries', 0x110000 * len(CONTEXTS))
    chk.count('code_points_flagged_by_the_scan', len(sus))
    out = [ctx % chr(c) for c in BOUNDARY for ctx in CONTEXTS]
    out += [ctx % chr(c) for c, ctx in sus[:400]]
    return out


def _tok_cmp(rec):
    src = from_atoms(rec['i'])
    T = obs.tokens_once(src)
    if T['o'] != 'ok' or T['toks'] != rec['toks']:
        return {'i': rec['i'], 'toks': T['toks'], 'tokt': T['tokt'], 'tokso': T['o']}
    return None


EMPTY = {'o': 'none', 'out': [], 'flat': [], 'abs': []}


def lexer(chk, chars, maxlen, sources, timeout=3000):
    d = tlc.workdir('C19_lexer')
    defs = ['MCChars == {' + ', '.join(tlc.tla_str(tlc.atom(c)) for c in chars) + '}',
            'MCSources == {' + ', '.join(tlc.tla_seq(s) for s in sources) + '}']
    cfg = ['SPECIFICATION LSpec', 'CONSTANTS', ' Chars <- MCChars', ' MaxLen = %d' % maxlen, ' LSources <- MCSources']
    cfg += ['INVARIANT ' + i for i in INV] + ['INVARIANT LDump', 'PROPERTY LexProgressP', 'CHECK_DEADLOCK FALSE']
    tlc.write_mc(d, 'MCL', 'Lexer', defs, '\n'.join(cfg) + '\n')
    res = tlc.run(d, 'MCL', timeout=timeout)
    chk.add_tlc('lexer', res, 'Lexer: all strings over %d characters up to length %d + %d sources' % (len(chars), maxlen, len(sources)))
    S.model_must_hold(chk, res)
    return res


def run(chk):
    quick = chk.tier == 'quick'
    rng = random.Random(chk.seed + 19)
    chk.rule = ('(1) the real categorizer is run over all 1,114,112 code points and TLC checks the recorded run-length '
                'encoded categories against the table; (2) TLC enumerates every string over one representative per '
                'character category (plus letters of multi-character names) up to length N and checks NonEmpty, TokPos, '
                'Partition in every lexer state; the final token lists are replayed on the real tokenizer; (3) tokens '
                'recorded from the real tokenizer on corpus and random long strings are validated by TLC '
                '(TokensPartition). A case is a source string (or the code-point map).')
    code_points(chk)
    chars = S.SC + S.SC_EXTRA
    names = ['\\left(', '\\left.', '\\big|', '\\Bigg\\rangle', '\\begin{e}', '\\item x', '\\bigx', '\\right\\}',
             'a\\', 'ab*c\\', '\\\\left[', ' \n a', '\x00\\\\', '\\\x00(', '\x7f$$', '\\le', '\\left', 'left(', '\\lefty(']
    res = lexer(chk, chars, 4 if quick else 5, names)
    bad = [b for b in obs.pmap(_tok_cmp, res.records) if b]
    for r in res.records:
        chk.case(''.join(r['i']))
    chk.count('replayed', len(res.records))
    chk.count('replay_disagreements', len(bad))
    for r in res.records[:4]:
        chk.sample({'source': from_atoms(r['i']), 'tokens': r['toks']})
    # code -> spec: recorded token streams
    docs = S.corpus_sources()
    extra = list(docs) + S.random_strings(rng, chars + ['\\left(', '\\big', 'ab', '\\\\'], 200 if quick else 20000, 5, 40)
    extra += S.regression_inputs(('C19', 'C06'))
    extra += boundary_sources(chk)
    exps = []
    for s in dict.fromkeys(extra):
        T = obs.tokens_once(s)
        chk.case(s)
        exps.append({'i': to_atoms(s), 'A': EMPTY, 'B': EMPTY, 'C': EMPTY, 'toks': T['toks'], 'tokt': T['tokt'], 'tokso': T['o']})
    for b in bad:
        b.update({'A': EMPTY, 'B': EMPTY, 'C': EMPTY})
    verdicts = S.validate(chk, bad + exps, timeout=3000)
    for o, failing, drift, v in verdicts:
        src = from_atoms(o['i'])
        if 'C19' in failing:
            chk.violation('C19', {'input': src, 'kind': 'tokens', 'tokens': [[t['p'], from_atoms(t['s'])] for t in o['tokt']][:40],
                                  'tokenizer_outcome': o['tokso']})
        elif 'toks' in drift:
            chk.drifted('toks', {'input': src})
    chk.exhaustive = False
    chk.assumptions += ['NUL/DEL may be dropped anywhere or kept inside a text run (both satisfy the clause)']


def replay(chk, path):
    case = json.load(open(path))
    if case.get('kind') == 'codepoints':
        code_points(chk)
        return chk.finish()
    s = case['input']
    T = obs.tokens_once(s)
    o = {'i': to_atoms(s), 'A': EMPTY, 'B': EMPTY, 'C': EMPTY, 'toks': T['toks'], 'tokt': T['tokt'], 'tokso': T['o']}
    for o, failing, drift, v in S.validate(chk, [o]):
        if 'C19' in failing:
            chk.violation('C19', {'input': s, 'kind': 'tokens'})
    print(json.dumps({'input': s, 'tokens': T['toks']}))
    return chk.finish()

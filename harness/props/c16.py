"""C16 Serialised output is a fixed point of the parser."""
import json
import random

from harness import strings as S, obs
from harness.props import c08

CLAUSES = ('C16',)
INV = ['C16_FixedPoint']


def run(chk):
    quick = chk.tier == 'quick'
    chk.rule = ('TLC enumerates every source over the token-kind alphabets (<= N words, side conditions as guards), '
                'parses it with the reader machine, re-parses the machine\'s output and checks FixedPoint (ok, same text, '
                'same abstract shape); every experiment (parse, serialise, re-parse) is replayed on the real parser; '
                'corpus / mutated / random sources run through the real load-save-load cycle are validated by TLC. '
                'A case is a source string.')
    S.standard(chk, c08.scopes(quick), INV, CLAUSES,
               're-parsing the serialised text must succeed with identical shape and identical text',
               extra_sources=c08.extras(chk, quick))
    chk.assumptions += ['side conditions of C08 plus: no bare sizing prefix (\\left, \\big ...) - decided on the reference '
                        'token stream', 'shape = names, argument kinds and contents with adjacent text leaves merged']


def replay(chk, path):
    case = json.load(open(path))
    ex = obs.experiment(case['input'])
    S.judge(chk, S.validate(chk, [ex]), CLAUSES)
    print(json.dumps({'input': case['input'], 'A': ex['A']['o'], 'C': ex['C']['o']}))
    return chk.finish()

"""C16 Serialised output is a fixed point of the parser."""
import json
import random

from harness import strings as S, obs
from harness.props import c08

CLAUSES = ('C16',)
INV = ['C16_FixedPoint']


def ws_documents(chk, quick):
    """well-formed documents written with arbitrary (attaching) whitespace between commands and their arguments, from DocGen"""
    from harness import docs as D
    from harness.tlc import from_atoms
    out = []
    common = {'MEnvNames': [], 'VerbNames': [], 'Leaves': [], 'Labels': [''], 'ComPool': [], 'ListNames': [], 'MathKinds': []}
    p = dict(common)
    p.update({'Budget': 5 if quick else 6, 'Seps': ['', '\n', ' '], 'TextPool': ['\n\n', 'x'], 'MathTextPool': ['x'], 'EnvNames': [], 'CmdNames': ['a'],
              'MaxSib': 2, 'MaxArgs': 4 if quick else 5, 'MaxDepth': 2})
    recs, _ = D.generate(chk, 'wsruns', p, ['C02_Structure', 'C09_Conserves'])
    out += [from_atoms(r['i']) for r in recs]
    p = dict(common)
    p.update({'Budget': 7, 'Seps': [''], 'TextPool': ['c', 't'], 'MathTextPool': ['x'], 'EnvNames': [], 'CmdNames': ['a'],
              'MaxSib': 1, 'MaxArgs': 3, 'MaxDepth': 3})
    recs, _ = D.generate(chk, 'twinargs', p, ['C02_Structure'])
    out += [from_atoms(r['i']) for r in recs]
    p = dict(common)
    p.update({'Budget': 3 if quick else 4, 'Seps': ['', ' ', '\n', ' \n '], 'TextPool': ['x', ' '], 'MathTextPool': ['x'], 'EnvNames': ['e'], 'CmdNames': ['a', 'bb'],
              'MathKinds': ['$'], 'ListNames': ['itemize'], 'MaxSib': 2, 'MaxArgs': 2, 'MaxDepth': 3})
    recs, _ = D.generate(chk, 'wsdocs', p, ['C02_Structure', 'C09_Conserves'])
    out += [from_atoms(r['i']) for r in recs]
    return list(dict.fromkeys(out))


def run(chk):
    quick = chk.tier == 'quick'
    chk.rule = ('TLC enumerates every source over the token-kind alphabets (<= N words, side conditions as guards), '
                'parses it with the reader machine, re-parses the machine\'s output and checks FixedPoint (ok, same text, '
                'same abstract shape); every experiment (parse, serialise, re-parse) is replayed on the real parser; '
                'corpus / mutated / random sources run through the real load-save-load cycle are validated by TLC. '
                'A case is a source string.')
    S.standard(chk, c08.scopes(quick), INV, CLAUSES,
               're-parsing the serialised text must succeed with identical shape and identical text',
               extra_sources=c08.extras(chk, quick), sources=ws_documents(chk, quick), runs='C', simulate_words=[w for w in S.ST + c08.NOIGN])
    chk.assumptions += ['side conditions of C08 plus: no bare sizing prefix (\\left, \\big ...) - decided on the reference '
                        'token stream', 'shape = names, argument kinds and contents with adjacent text leaves merged']


def replay(chk, path):
    case = json.load(open(path))
    ex = obs.experiment(case['input'])
    S.judge(chk, S.validate(chk, [ex]), CLAUSES)
    print(json.dumps({'input': case['input'], 'A': ex['A']['o'], 'C': ex['C']['o']}))
    return chk.finish()

"""C03 Search returns exactly the matching nodes."""
import json
import re

from harness import docs as D
from harness.tlc import from_atoms
from harness.props import c01

INV = ['C03_Search', 'C02_Structure']
IDENT = re.compile(r'^[A-Za-z]+$')


def check_doc(args):
    rec, skip = args
    src = from_atoms(rec['i'])
    soup, o = D.observe_doc(src, skip)
    if o['o'] != 'ok':
        return [('C03-parse', {'outcome': o['o']})], False
    from TexSoup.data import TexNode
    nodes = D.real_nodes(soup)
    by_pos = {}
    for n in nodes[1:]:
        by_pos.setdefault(n.position, n)
    by_pos[-1] = soup
    bad = []
    names = []
    for ent in rec['find']:
        root = by_pos.get(ent['root'])
        if root is None:
            bad.append(('C03-root-missing', {'root_position': ent['root']}))
            break
        for qr in ent['res']:
            q = from_atoms(qr['q'])
            want = sorted(qr['pos'])
            try:
                fa = root.find_all(q)
                got = sorted(n.position for n in fa)
                f = root.find(q)
                cnt = root.count(q)
            except Exception as e:   # noqa
                bad.append(('C03-exception', {'query': q, 'root_position': ent['root'], 'exception': type(e).__name__}))
                break
            if got != want:
                bad.append(('C03-find_all', {'query': q, 'root_position': ent['root'], 'got': got, 'want': want}))
                break
            if (f is None) != (len(fa) == 0) or (f is not None and f.position != fa[0].position):
                bad.append(('C03-find', {'query': q, 'root_position': ent['root']}))
                break
            if cnt != len(fa):
                bad.append(('C03-count', {'query': q, 'root_position': ent['root'], 'count': cnt, 'len': len(fa)}))
                break
            # attribute access searches only for names that are not attributes of the node class itself (text, name, args ...)
            if IDENT.match(q) and q not in ('expr', 'parent', 'char_to_line') and not hasattr(type(root), q):
                a = getattr(root, q)
                if (a is None) != (f is None) or (a is not None and a.position != f.position):
                    bad.append(('C03-attr', {'query': q, 'root_position': ent['root']}))
                    break
            if ent['root'] == -1 and re.match(r'^[A-Za-z*]+$', q):        # names (the list form of find_all takes names, not delimiters)
                names.append((q, want))
        if bad:
            break
    if not bad and len(names) >= 2:
        uniq = {}
        for q, w in names:
            uniq[q] = w
        qs = sorted(uniq)
        for sel in (qs, qs[:2], qs[-2:]):
            want = sorted(set(p for q in sel for p in uniq[q]))      # a node that matches several of the names is returned once
            got = sorted(n.position for n in soup.find_all(list(sel)))
            if got != want:
                bad.append(('C03-list', {'query': list(sel), 'got': got, 'want': want}))
                break
    return bad, o['flat'] != rec['flat']


def run(chk):
    quick = chk.tier == 'quick'
    chk.rule = ('TLC generates every well-formed document within the budget and computes, on the oracle tree, FindAll for every '
                'node as search root and every query (all names of the document, an absent name, the full text of every command '
                'with arguments, every \\begin{name}); TLC checks that the machine tree gives the same answers; the real '
                'find_all / find / count / attribute access / list-of-names are compared with them for every root and query '
                '(results identified by source offset, compared as multisets). A case is a document.')
    sc = [('docs', {'Budget': 3 if quick else 4}),
          ('nested', {'Budget': 4, 'TextPool': ['t', ' '], 'ComPool': [], 'MathKinds': ['$', '\\['], 'MEnvNames': ['equation'],
                      'VerbNames': [], 'Leaves': [], 'CmdNames': ['a', 'a*', 'text'], 'EnvNames': ['e'], 'Labels': [''], 'MaxSib': 2, 'MaxDepth': 4, 'MaxArgs': 2}),
          ('envarg-deep', {'Budget': 6, 'TextPool': [], 'ComPool': [], 'MathKinds': [], 'MEnvNames': [], 'VerbNames': [], 'Leaves': [], 'CmdNames': ['a', 'b*'],
                           'EnvNames': ['e'], 'ListNames': ['itemize'], 'Labels': ['', 'l'], 'MaxSib': 1, 'MaxDepth': 6, 'MaxArgs': 1})]
    for label, pools in sc:
        recs, p = D.generate(chk, label, pools, INV)
        c01.replay_docs(chk, recs, p['UserSkipG'], check_doc, 'search results must be exactly the matching nodes')
        for r in sorted(recs, key=lambda r: -len(r['i']))[:2]:
            chk.sample({'source': from_atoms(r['i']), 'find': [[e['root'], [[from_atoms(q['q']), q['pos']] for q in e['res']]] for e in r['find']][:2]})
    chk.exhaustive = False
    chk.assumptions += ['order of find_all is not constrained (only find == find_all[0])',
                        'queries: names occurring in the document, one absent name, full text of commands with arguments, \\begin{name}']


def replay(chk, path):
    case = json.load(open(path))
    return D.replay_case(chk, case, 'C03-find_all')

"""C20 The look-ahead buffer is a faithful cursor over its sequence."""
import itertools
import json
import os
import random

from harness import tlc, obs
from harness.tlc import to_atoms, from_atoms

TOKEN_SOURCES = ['\\a{b}', '\\begin{e}x\\end{e}', 'x $y$ z', '\\item a\n\nb', '%c\n{', 'ab', '\\end{verbatim}x']


def op(k, a=0, b=0, s=''):
    return {'k': k, 'a': a, 'b': b, 's': to_atoms(s)}


def ops_for(items):
    """the operation alphabet; items = the item texts occurring in the scope"""
    o = [op('next')]
    o += [op('fwd', j) for j in (0, 1, 2, 3)] + [op('back', j) for j in (0, 1, 2)]
    o += [op('peek', j) for j in (-2, -1, 0, 1, 2)]
    o += [op('peekr', a, b) for a, b in ((0, 2), (-1, 1), (1, 4), (0, 0), (-2, 0))]
    o += [op('has', j) for j in (1, 2, 3)]
    o += [op('slice', a, b) for a, b in ((0, 2), (1, 9), (2, 2))] + [op('tail', 0), op('tail', 1), op('head', 2), op('head', 9)]
    o += [op('index', j) for j in (0, 2, 7)]
    strs = sorted(set(items))[:3] + ['ab', 'ba', '\\end{e}']
    o += [op('sw', s=s) for s in strs] + [op('ew', s=s) for s in strs[:4]]
    o += [op('fu', s=t) for t in sorted(set(items))[:3] + ['zz']]
    o += [op('fus', s=s) for s in strs[:3] + ['\\end{e}']]
    o += [op('nfu', s=t) for t in sorted(set(items))[:2] + ['zz']]
    return o


def tla_op(o):
    return '[k |-> %s, a |-> %s, b |-> %s, s |-> %s]' % (tlc.tla_str(o['k']), tlc.tla_val(o['a']), tlc.tla_val(o['b']),
                                                      '<<' + ','.join(tlc.tla_str(c) for c in o['s']) + '>>')


def tla_items(items):
    return '<<' + ','.join(tlc.tla_seq(it) for it in items) + '>>'


# ---- real side -------------------------------------------------------------------------------------------
def make_buffer(items, flavour):
    from TexSoup.utils import Buffer, Token
    if flavour == 'str':
        return Buffer(''.join(items))
    if flavour == 'tokens':
        pos, toks = 0, []
        for it in items:
            toks.append(Token(it, pos))
            pos += len(it)
        return Buffer(iter(toks))
    if flavour == 'lexer':
        from TexSoup.tokens import tokenize
        from TexSoup.category import categorize
        return tokenize(categorize(''.join(items)))
    raise ValueError(flavour)


def do_op(b, o):
    """execute one operation on the real buffer -> (result encoding, cursor)"""
    k, a, bb, s = o['k'], o['a'], o['b'], from_atoms(o['s'])
    try:
        if k == 'next':
            r = next(b)
        elif k == 'fwd':
            r = b.forward(a)
        elif k == 'back':
            r = b.backward(a)
        elif k == 'peek':
            r = b.peek(a)
        elif k == 'peekr':
            r = b.peek((a, bb))
        elif k == 'has':
            r = b.hasNext(a)
        elif k == 'slice':
            r = b[a:bb]
        elif k == 'tail':
            r = b[a:]
        elif k == 'head':
            r = b[:a]
        elif k == 'index':
            r = b[a]
        elif k == 'sw':
            r = b.startswith(s)
        elif k == 'ew':
            r = b.endswith(s)
        elif k == 'fu':
            r = b.forward_until(lambda x: x == s)
        elif k == 'fus':
            r = b.forward_until(lambda buf: buf.startswith(s), peek=False)
        elif k == 'nfu':
            r = b.num_forward_until(lambda x: x == s)
        else:
            raise ValueError(k)
    except StopIteration:
        return ['exc', 'StopIteration'], b.position
    except Exception as e:      # noqa
        return ['exc', type(e).__name__], b.position
    if r is None:
        enc = ['none']
    elif isinstance(r, bool):
        enc = ['bool', 'T' if r else 'F']
    elif isinstance(r, int):
        enc = ['int', str(r)]
    else:
        enc = ['ret'] + to_atoms(str(r))
    return enc, b.position


def flavours(items):
    fl = ['tokens']
    if all(len(it) == 1 for it in items):
        fl.append('str')
    return fl


def _replay(rec):
    items = [from_atoms(it) for it in rec['s']]
    out = []
    for fl in flavours(items) + (['lexer'] if ''.join(items) in TOKEN_SOURCES else []):
        try:
            b = make_buffer(items, fl)
            if fl == 'lexer' and [str(t) for t in make_buffer(items, 'lexer')] != items:
                continue
        except Exception as e:   # noqa
            out.append({'flavour': fl, 'step': -1, 'got': ['exc', type(e).__name__], 'want': 'construct'})
            continue
        for n, ev in enumerate(rec['h']):
            enc, cur = do_op(b, ev['op'])
            if enc != ev['r'] or cur != ev['c']:
                out.append({'flavour': fl, 'step': n, 'op': ev['op'], 'got': enc, 'got_cursor': cur,
                            'want': ev['r'], 'want_cursor': ev['c']})
                break
    return out


def in_range(o, n, c):
    k, a, b = o['k'], o['a'], o['b']
    if k == 'fwd':
        return a >= 0 and c + a <= n
    if k == 'back':
        return a >= 0 and c - a >= 0
    if k == 'peekr':
        return a <= b
    return True


def record_walks(rng, seqs, count, length):
    """code -> spec: random in-range walks on the real class, recorded"""
    traces = []
    for _ in range(count):
        items = rng.choice(seqs)
        fl = rng.choice(flavours(items))
        b = make_buffer(items, fl)
        ops = ops_for(items)
        h = []
        for _ in range(length):
            cand = [o for o in ops if in_range(o, len(items), b.position)]
            o = rng.choice(cand)
            enc, cur = do_op(b, o)
            h.append({'op': o, 'r': enc, 'c': cur})
        traces.append({'s': [to_atoms(it) for it in items], 'h': h, 'flavour': fl})
    return traces


def validate(chk, traces, timeout=1800):
    d = tlc.workdir('C20_trace')
    with open(os.path.join(d, 'traces.ndjson'), 'w') as f:
        for t in traces:
            f.write(json.dumps({'s': t['s'], 'h': t['h']}) + '\n')
    tlc.write_mc(d, 'MCBT', 'BufferTrace', ['MCSeqs == {}', 'MCOps == {}'],
                 'SPECIFICATION TSpec\nCONSTANTS\n Seqs <- MCSeqs\n Ops <- MCOps\n MaxHist = 0\nINVARIANT Verdict\nCHECK_DEADLOCK FALSE\n')
    res = tlc.run(d, 'MCBT', timeout=timeout)
    chk.add_tlc('trace', res, 'BufferTrace: %d recorded walks of the real Buffer' % len(traces))
    verd = {r['tid']: r for r in res.records if 'tid' in r}
    if len(verd) != len(traces):
        raise tlc.MachineryError('BufferTrace: %d verdicts for %d traces' % (len(verd), len(traces)))
    chk.traces += len(traces)
    for k, t in enumerate(traces, 1):
        v = verd[k]
        if v['verdict'] in ('result', 'cursor'):
            ev = t['h'][v['at'] - 1] if v['at'] >= 1 else None
            chk.violation('C20-' + v['verdict'], {'kind': 'walk', 'items': [from_atoms(x) for x in t['s']], 'flavour': t['flavour'],
                                                 'history': [e['op'] for e in t['h'][:v['at']]], 'event': ev})
        elif v['verdict'] == 'out-of-scope':
            raise tlc.MachineryError('driver produced an out-of-range operation')


def scope(quick):
    seqs = []
    for L in range(0, 4 if quick else 5):
        seqs += [list(p) for p in itertools.product('ab', repeat=L)]
    from TexSoup.tokens import tokenize
    from TexSoup.category import categorize
    for s in TOKEN_SOURCES:
        seqs.append([str(t) for t in tokenize(categorize(s))])
    seqs += [list('a\r\nb'), list('\r\n'), list('a\n\rb')]          # single-character items that are line ends (string-backed flavour too)
    return seqs


def run(chk):
    quick = chk.tier == 'quick'
    rng = random.Random(chk.seed + 20)
    chk.rule = ('TLC explores the list+index model breadth-first over all short underlying sequences and the whole operation '
                'alphabet; with VIEW <<seq, cursor, previous op, op+result>> it yields one witness path for every (state, '
                'previous operation, operation) triple; each path is replayed step by step on the real Buffer (string-backed, '
                'token-backed, and the real tokenizer\'s buffer) comparing result and cursor after every call; random long '
                'in-range walks recorded from the real class are validated by TLC (BufferTrace). A case is one path.')
    seqs = scope(quick)
    items = sorted({it for s in seqs for it in s})
    d = tlc.workdir('C20_model')
    allops = {}
    for s in seqs:
        for o in ops_for(s):
            allops[json.dumps(o, sort_keys=True)] = o
    defs = ['MCSeqs == {' + ', '.join(tla_items(s) for s in seqs) + '}',
            'MCOps == {' + ', '.join(tla_op(o) for o in allops.values()) + '}']
    cfg = ('SPECIFICATION Spec\nCONSTANTS\n Seqs <- MCSeqs\n Ops <- MCOps\n MaxHist = 40\nVIEW %s\nINVARIANT CursorInRange\n'
           'INVARIANT ExhaustionIsReported\nINVARIANT Dump\nPROPERTY ReadsDoNotMove\nPROPERTY MovesAreExact\nCHECK_DEADLOCK FALSE\n'
           % ('View1' if quick else 'View'))
    tlc.write_mc(d, 'MCB', 'Buffer', defs, cfg)
    res = tlc.run(d, 'MCB', timeout=6000)
    chk.add_tlc('model', res, 'Buffer: %d sequences x %d operations, one path per (state%s, op)'
                % (len(seqs), len(allops), '' if quick else ', kind of previous op'))
    if res.violated:
        raise tlc.MachineryError('Buffer model violates %s' % res.violated)
    recs = [r for r in res.records if 'h' in r]
    if not quick:
        walk = 60
        cfg2 = ('SPECIFICATION Spec\nCONSTANTS\n Seqs <- MCSeqs\n Ops <- MCOps\n MaxHist = %d\nINVARIANT CursorInRange\n'
                'INVARIANT DumpEnd\nCHECK_DEADLOCK FALSE\n' % walk)
        tlc.write_mc(d, 'MCBS', 'Buffer', defs, cfg2)
        res2 = tlc.run(d, 'MCBS', timeout=3000, simulate=150, depth=walk + 1, seed=chk.seed)
        chk.add_tlc('simulate', res2, 'Buffer: random walks of %d operations' % walk)
        recs += [r for r in res2.records if 'h' in r]
    bad = obs.pmap(_replay, recs)
    for r, b in zip(recs, bad):
        chk.case(json.dumps([r['s'], [e['op'] for e in r['h']]]))
        for f in b:
            chk.violation('C20-replay', {'kind': 'path', 'items': [from_atoms(x) for x in r['s']], 'flavour': f['flavour'],
                                         'history': [e['op'] for e in r['h'][:f['step'] + 1]], 'mismatch': f})
    chk.count('paths_replayed', len(recs))
    for r in recs[:3] + recs[-2:]:
        chk.sample({'items': [from_atoms(x) for x in r['s']],
                    'path': [[e['op']['k'], e['op']['a'], e['op']['b'], from_atoms(e['op']['s']), from_atoms(e['r'][1:]) if e['r'][0] == 'ret' else e['r'], e['c']] for e in r['h']]})
    traces = record_walks(rng, seqs, 600 if quick else 8000, 40)
    for t in traces:
        chk.case(json.dumps([t['s'], [e['op'] for e in t['h']]]))
    validate(chk, traces)
    chk.exhaustive = False
    chk.assumptions += ['in-range moves only; peeks with non-negative absolute index (or past the end); endswith with at least '
                        'len(s) items behind the cursor', 'forward_until on an exhausted buffer must return an empty result']


def replay(chk, path):
    case = json.load(open(path))
    items = case['items']
    rec = {'s': [to_atoms(x) for x in items], 'h': []}
    b = make_buffer(items, case['flavour'])
    h = []
    for o in case['history']:
        enc, cur = do_op(b, o)
        h.append({'op': o, 'r': enc, 'c': cur})
    validate(chk, [{'s': rec['s'], 'h': h, 'flavour': case['flavour']}])
    print(json.dumps(h[-1] if h else None))
    return chk.finish()

"""C17 Result depends only on the source text; parses are isolated."""
import io
import itertools
import json
import os
import random
import subprocess
import sys

from harness import tlc, obs, strings as S, proj
from harness.tlc import from_atoms, to_atoms
from harness.props import c12, c19

POOL = ['\\begin{myv}$ {\\end{myv} \\a{z}', '$m$ {g} \\textbf a \\label b', '\\newcommand{\\p}[2]{x} \\p{a}{b}', '\\p{a}{b}{c} a\r\nb \\x{y}\r\n', '\\begin{e}[o]{r}t\\end{e}', '\\a{x} $y$', '\\left( x \\right]',
        '\\section[s]{t}\n\n\\begin{itemize}\\item i\\end{itemize}', '$m$ \\[d\\] \\(p\\)', '\\def\\x y %c\nz',
        # sources whose parse FAILS while groups / environments are still open (whatever a failed parse leaves behind must not reach later parses)
        # sources that begin with white space (a chunking may isolate it)
        '\n  \\a{x} y', ' \n\n\\begin{e}t\\end{e}',
        '\\textbf{\\emph{x}', '{{{$x', '\\begin{e}{[{\\begin{f}x\\end{e}', '\\a{\\b[\\c{\\']
SKIP = ('myv',)
FORMS = ['str', 'list', 'tuple', 'gen', 'file', 'chars', 'lines']
EDITS = ['string', 'rename', 'append', 'delete', 'args', 'mathname', 'selfcopy']
SEEDS = ['0', '1', '2', '3', '7', '11', '42', 'random']


def feed(src, form, cuts=None):
    """the source in another input form (all denote the same characters)"""
    if cuts is None:
        cuts = [len(src) // 2]
    pts = [0] + sorted(cuts) + [len(src)]
    chunks = [src[a:b] for a, b in zip(pts, pts[1:])]
    if form == 'str':
        return src
    if form == 'list':
        return chunks
    if form == 'tuple':
        return tuple(chunks)
    if form == 'gen':
        return (c for c in chunks)
    if form == 'file':
        return io.StringIO(src)
    if form == 'chars':
        return list(src)
    if form == 'lines':
        return src.splitlines(True)
    raise ValueError(form)


class Failed(object):
    """a parse that ended in a diagnostic: behaves like an immutable document whose text is the error name"""
    def __init__(self, name):
        self.name = name
        self.expr = None

    def __str__(self):
        return '<' + self.name + '>'


def parse_obs(x, skip=SKIP, tolerance=0):
    from TexSoup import TexSoup
    try:
        soup = TexSoup(x, skip_envs=skip, tolerance=tolerance)
    except (EOFError, TypeError, AssertionError) as e:
        return Failed(type(e).__name__), {'out': '<' + type(e).__name__ + '>', 'flat': []}
    return soup, {'out': str(soup), 'flat': proj.flat_seq(soup.expr._contents)}


def snapshot(doc, names=False):
    if isinstance(doc, Failed):
        return {'out': str(doc), 'flat': []}
    o = {'out': str(doc), 'flat': proj.flat_seq(doc.expr._contents)}
    if names:
        # line / column answers come from a table built at parse time: one table per document
        o['lc'] = [list(doc.char_pos_to_line(p)) for p in (0, 2, 5, 9, 14, 22, 31)]
    if names:       # what search sees: the name, opening and closing of every node (class-level state would leak here)
        from TexSoup.data import TexNode
        o['names'] = [[str(n.name), str(getattr(n.expr, 'begin', '')), str(getattr(n.expr, 'end', ''))]
                      for n in doc.descendants if isinstance(n, TexNode)]
    return o


def do_edit(soup, e):
    from TexSoup.data import TexNode, TexCmd, TexNamedEnv, TexGroup, TexEnv
    nodes = [n for n in soup.descendants if isinstance(n, TexNode)]
    if e == 'string':
        for n in nodes:
            if isinstance(n.expr, TexCmd) and len(n.expr.args) == 1 and isinstance(n.expr.args[0], TexGroup):
                n.string = 'ZZ'
                return
    elif e == 'rename':
        for n in nodes:
            if isinstance(n.expr, (TexCmd, TexNamedEnv)) and n.expr.name != 'item':
                n.name = 'zz'
                return
    elif e == 'append':
        soup.append('X')
    elif e == 'delete':
        if nodes:
            nodes[0].delete()
    elif e == 'args':
        for n in nodes:
            if isinstance(n.expr, (TexCmd, TexNamedEnv)):
                n.args.append('{z}')
                return
    elif e == 'mathname':
        for n in nodes:
            if isinstance(n.expr, TexEnv) and not isinstance(n.expr, (TexNamedEnv, TexGroup)):
                n.name = 'renamed'
                return
    elif e == 'selfcopy':      # a copy of the first node appended to the same document, then the ORIGINAL is edited
        if nodes:
            soup.append(nodes[0].copy())
            first = [n for n in soup.descendants if isinstance(n, TexNode)][0]
            if isinstance(first.expr, (TexCmd, TexNamedEnv)):
                first.args.append('[k]')
    elif e == 'reparse':
        pass


def run_history(src_id, form, edits, skip=SKIP):
    """one slot's own history, alone: the reference for isolation"""
    soup, o = parse_obs(feed(POOL[src_id - 1], form), skip)
    for e in edits:
        if isinstance(soup, Failed):
            break
        if e == 'reparse':
            soup, o = parse_obs(str(soup), skip)
        else:
            do_edit(soup, e)
    return snapshot(soup, names=True)


def _session(rec):
    """replay one interleaving; after every step every slot must equal its solo history"""
    slots = {1: None, 2: None}
    hist = {1: None, 2: None}
    for n, st in enumerate(rec['t']):
        d, a = st['d'], st['a']
        try:
            if a == 'parse':
                sid, form = int(st['x'][0]), st['x'][1]
                skip = SKIP if st['x'][2] == 'skip' else ()
                slots[d], _ = parse_obs(feed(POOL[sid - 1], form), skip)
                hist[d] = (sid, form, [], skip)
                # right after a parse the document must be what the reader machine computed for (source, option) - a
                # reference that no earlier step of this session can have contaminated
                want = rec['expect']['%d/%s' % (sid, st['x'][2])]
                got = snapshot(slots[d], names=True)
                gnames = sorted(got.pop('names', []))
                got.pop('lc', None)
                if got != want:
                    return {'step': n, 'why': 'parse-depends-on-history', 'slot': d, 'got': got['out'], 'want': want['out']}
                # (a command taken as an unbraced argument is not reachable through descendants: no names comparison for that source)
                if want['flat'] and '\\def\\' not in POOL[sid - 1] and gnames != proj.names_from_flat(want['flat']):
                    return {'step': n, 'why': 'names-depend-on-history', 'slot': d, 'got': gnames[:6], 'want': proj.names_from_flat(want['flat'])[:6]}
            elif a == 'edit':
                if not isinstance(slots[d], Failed):
                    do_edit(slots[d], st['x'][0])
                    hist[d][2].append(st['x'][0])
            elif a == 'reparse':
                if not isinstance(slots[d], Failed):
                    slots[d], _ = parse_obs(str(slots[d]), hist[d][3])
                    hist[d][2].append('reparse')
            elif a == 'drop':
                slots[d], hist[d] = None, None
        except Exception as e:   # noqa
            return {'step': n, 'why': 'exception', 'detail': type(e).__name__}
        if rec.get('light') and n % 25 != 24:
            continue        # long sessions: the solo-history comparison every 25 steps (the post-parse comparison at every parse)
        # look at every live document BEFORE computing the references (computing a reference parses again: whatever the
        # library shares between parses would then be re-targeted to the very source under comparison)
        try:
            gots = {k: snapshot(slots[k], names=True) for k in (1, 2) if slots[k] is not None}
            wants = {k: run_history(hist[k][0], hist[k][1], hist[k][2], hist[k][3]) for k in (1, 2) if slots[k] is not None}
        except BaseException as e:   # noqa  (RecursionError included: looking at a live document must not fail)
            return {'step': n, 'why': 'exception', 'detail': 'observing the documents: ' + type(e).__name__}
        for k in (1, 2):
            if slots[k] is None:
                continue
            want = wants[k]
            got = gots[k]
            if got != want:
                return {'step': n, 'why': 'isolation' if k != d else 'history', 'slot': k, 'got': got['out'], 'want': want['out']}
        if slots[1] is not None and slots[2] is not None and not isinstance(slots[1], Failed) and not isinstance(slots[2], Failed):
            shared = _ids(slots[1].expr) & _ids(slots[2].expr)
            if shared:
                return {'step': n, 'why': 'shared-state', 'count': len(shared)}
    return None


def _ids(expr, out=None):
    """identities of all mutable objects of a tree: expressions, argument lists, content lists"""
    from TexSoup.data import TexExpr
    if out is None:
        out = set()
    out.add(id(expr))
    out.add(id(expr.args))
    out.add(id(expr._contents))
    for a in expr.args:
        if isinstance(a, TexExpr):
            _ids(a, out)
    for x in expr._contents:
        if isinstance(x, TexExpr):
            _ids(x, out)
    return out


SEED_SCRIPT = r'''
import sys, json, hashlib
import os
sys.path.insert(0, %r); sys.path.insert(0, os.environ.get('VERIF_REPO', '/repo'))
from harness import proj
from TexSoup import TexSoup
srcs = json.load(open(sys.argv[1]))
out = []
for s in srcs:
    try:
        soup = TexSoup(s, skip_envs=('myv',))
        out.append(hashlib.md5(json.dumps([str(soup), proj.flat_seq(soup.expr._contents)]).encode()).hexdigest())
    except Exception as e:
        out.append('exc:' + type(e).__name__)
print(json.dumps(out))
'''


def run(chk):
    quick = chk.tier == 'quick'
    rng = random.Random(chk.seed + 17)
    chk.rule = ('(1) TLC runs the reader machine on the pool sources (expected trees) and the lexer machine on every sizing command x '
                'delimiter (Determinism, PunctPrefixFree); (2) every source is fed to the real parser as str / list / tuple / '
                'generator / file / list of characters / list of lines and in every 1- and 2-cut chunking incl. empty chunks and must '
                'give the machine\'s tree; (3) the same sources are parsed in fresh interpreters under 8 hash seeds; (4) Session.tla: '
                'TLC enumerates every interleaving of parse / edit / re-parse / drop on two documents up to N steps and each is '
                'replayed: after every step each document must equal its own history run alone and two live trees share no '
                'mutable object. A case is a (source, form, chunking), a (seed, source) or an interleaving.')
    # (1) expected trees from the machine; lexer determinism on sizing commands
    sizing = ['\\' + p + d + 'x' for p in c12.PREFIX for d in c12.DELIMS]
    res = S.explore(chk, 'pool', [], userskip=SKIP, invariants=['C17_LexDeterminism', 'C06_Diagnostic'], sources=POOL + sizing, runs='B')
    S.model_must_hold(chk, res)
    expect = {from_atoms(r['i']): r['A'] for r in res.records}
    expect_tol = {from_atoms(r['i']): r['B'] for r in res.records}         # the machine's tolerant run of the same sources
    res0 = S.explore(chk, 'pool-noskip', [], userskip=(), invariants=['C06_Diagnostic'], sources=POOL, runs='')
    expect0 = {from_atoms(r['i']): r['A'] for r in res0.records}

    def as_snapshot(a):
        return {'out': from_atoms(a['out']), 'flat': a['flat']} if a['o'] == 'ok' else {'out': '<' + a['o'] + '>', 'flat': []}
    session_expect = {}
    for k, src in enumerate(POOL, 1):
        session_expect['%d/skip' % k] = as_snapshot(expect[src])
        session_expect['%d/noskip' % k] = as_snapshot(expect0[src])
    lres = c19.lexer(chk, ['\\', 'l', 'e', 'f', 't', '.', '|', '(', 'b', 'i', 'g'], 0, sizing + ['\\left.|', '\\bigg\\langle', '\\Bigg\\rfloor x'])
    # (2) forms and chunkings
    n_forms = 0
    for tol, src in [(0, x) for x in POOL + (sizing if not quick else sizing[::7])] + [(1, x) for x in POOL]:
        want = expect[src] if tol == 0 else expect_tol[src]
        cutsets = [[c] for c in range(len(src) + 1)]
        if (len(src) <= 14 or not quick) and not (quick and tol == 1):
            cutsets += [[a, b] for a in range(len(src) + 1) for b in range(a, len(src) + 1)][::(1 if not quick else 3)]
        for form in FORMS:
            for cuts in (cutsets if form in ('list', 'tuple', 'gen') else [None]):
                n_forms += 1
                chk.case('form:%d:%s:%s:%r' % (tol, src, form, cuts))
                try:
                    soup, o = parse_obs(feed(src, form, cuts), tolerance=tol)
                    got = {'o': 'ok', 'out': to_atoms(o['out']), 'flat': o['flat']} if not isinstance(soup, Failed) else \
                        {'o': soup.name, 'out': [], 'flat': []}
                except Exception as e:   # noqa
                    got = {'o': type(e).__name__ if type(e).__name__ in obs.DIAG else 'leak:' + type(e).__name__, 'out': [], 'flat': []}
                if got['o'] != want['o'] or (got['o'] == 'ok' and (got['out'] != want['out'] or got['flat'] != want['flat'])):
                    chk.violation('C17-input-form', {'kind': 'form', 'input': src, 'form': form, 'cuts': cuts, 'tolerance': tol,
                                                     'got': from_atoms(got['out']), 'want': from_atoms(want['out'])})
    chk.count('form_chunking_cases', n_forms)
    # parsing twice: equal and disjoint
    for src in POOL:
        a, oa = parse_obs(src)
        b, ob = parse_obs(src)
        if oa != ob:
            chk.violation('C17-twice', {'kind': 'twice', 'input': src})
        if not isinstance(a, Failed) and not isinstance(b, Failed) and _ids(a.expr) & _ids(b.expr):
            chk.violation('C17-shared-state', {'kind': 'twice', 'input': src})
    # (3) hash seeds in fresh interpreters
    d = tlc.workdir('C17_seeds')
    srcs = POOL + sizing + ['\\bigg\\langle a \\Bigg\\rfloor', '\\left.|x\\right|.']
    json.dump(srcs, open(os.path.join(d, 'srcs.json'), 'w'))
    open(os.path.join(d, 'seed.py'), 'w').write(SEED_SCRIPT % os.path.dirname(os.path.dirname(os.path.dirname(os.path.abspath(__file__)))))
    digests = {}
    for seed in SEEDS:
        env = dict(os.environ, PYTHONHASHSEED=seed)
        p = subprocess.run([sys.executable, os.path.join(d, 'seed.py'), os.path.join(d, 'srcs.json')], env=env, stdout=subprocess.PIPE,
                           stderr=subprocess.PIPE, text=True, timeout=600)
        if p.returncode != 0:
            raise tlc.MachineryError('seed run failed: ' + p.stderr[-300:])
        digests[seed] = json.loads(p.stdout)
    base = digests[SEEDS[0]]
    for seed in SEEDS:
        for k, s in enumerate(srcs):
            chk.case('seed:%s:%s' % (seed, s))
            if digests[seed][k] != base[k]:
                chk.violation('C17-hash-seed', {'kind': 'seed', 'input': s, 'seed': seed, 'reference_seed': SEEDS[0]})
    import hashlib
    for k, s in enumerate(srcs):
        if s in expect and expect[s]['o'] == 'ok':
            h = hashlib.md5(json.dumps([from_atoms(expect[s]['out']), expect[s]['flat']]).encode()).hexdigest()
            if base[k] != h:
                chk.drifted('seed-run differs from machine', {'input': s})
    chk.count('seed_runs', len(SEEDS) * len(srcs))
    # (4) sessions
    dd = tlc.workdir('C17_session')
    tlc.write_mc(dd, 'MCS', 'Session', ['MCForms == {%s}' % ', '.join(tlc.tla_str(f) for f in (['str'] if quick else ['str', 'gen'])),
                                        'MCEdits == {%s}' % ', '.join(tlc.tla_str(e) for e in EDITS)],
                 'SPECIFICATION Spec\nCONSTANTS\n NSrc = %d\n Forms <- MCForms\n EditKinds <- MCEdits\n MaxSteps = %d\n'
                 'INVARIANT Dump\nPROPERTY Isolation\nCHECK_DEADLOCK FALSE\n' % (4, 4))
    sres = tlc.run(dd, 'MCS', timeout=3000)
    chk.add_tlc('session', sres, 'Session: all interleavings of parse/edit/reparse/drop on two documents, 4 steps')
    if sres.violated:
        raise tlc.MachineryError('Session model violates %s' % sres.violated)
    recs = [r for r in sres.records if 't' in r]
    cap = 6000 if quick else 40000
    chk.notes['session_interleavings_enumerated'] = len(recs)
    if len(recs) > cap:
        rng.shuffle(recs)
        recs = recs[:cap]
    for r in recs:
        r['expect'] = session_expect
    bad = obs.pmap(_session, recs)
    for r, b in zip(recs, bad):
        chk.case(json.dumps(r['t']))
        if b:
            chk.violation('C17-' + b['why'], {'kind': 'session', 'trace': r['t'], 'mismatch': b})
    chk.count('sessions_replayed', len(recs))
    # (5) long sessions: TLC simulates behaviours of the same model with several hundred steps over ALL pool sources (including
    # the ones whose parse fails with groups still open); right after every parse the document must be what the machine
    # computed for that source - whatever hundreds of earlier parses, failures and edits left behind
    dl = tlc.workdir('C17_long')
    steps = 300
    tlc.write_mc(dl, 'MCL', 'Session', ['MCForms == {"str"}', 'MCEdits == {"append", "args"}'],
                 'SPECIFICATION Spec\nCONSTANTS\n NSrc = %d\n Forms <- MCForms\n EditKinds <- MCEdits\n MaxSteps = %d\n'
                 'INVARIANT Dump\nPROPERTY Isolation\nCHECK_DEADLOCK FALSE\n' % (len(POOL), steps))
    lres = tlc.run(dl, 'MCL', timeout=3000, simulate=2 if quick else 6, depth=steps + 2, seed=chk.seed)
    chk.add_tlc('long-sessions', lres, 'Session: simulated behaviours of %d steps over %d sources' % (steps, len(POOL)))
    if lres.violated:
        raise tlc.MachineryError('Session model violates %s' % lres.violated)
    lrecs = [r for r in lres.records if 't' in r]
    for r in lrecs:
        r['expect'] = session_expect
        r['light'] = True
    bad = obs.pmap(_session, lrecs, force=True)
    for r, b in zip(lrecs, bad):
        chk.case(json.dumps(r['t']))
        if b:
            chk.violation('C17-' + b['why'], {'kind': 'session', 'trace': r['t'][:b['step'] + 1], 'mismatch': b})
    chk.count('long_sessions_replayed', len(lrecs))
    chk.sample({'session': recs[0]['t'] if recs else None})
    chk.sample({'forms': FORMS, 'example_source': POOL[0]})
    chk.exhaustive = False
    chk.assumptions += ['hash seeds %s in fresh interpreters' % SEEDS, 'object identity (id) of expressions, argument lists and content '
                        'lists as the notion of shared mutable state']


def replay(chk, path):
    case = json.load(open(path))
    if case.get('kind') == 'session':
        print(json.dumps(_session({'t': case['trace']})))
    elif case.get('kind') == 'form':
        soup, o = parse_obs(feed(case['input'], case['form'], case.get('cuts')), tolerance=case.get('tolerance', 0))
        print(json.dumps(o['out']))
    return 0

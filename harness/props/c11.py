"""C11 Verbatim-like environments are opaque."""
import json

from harness import docs as D
from harness.tlc import from_atoms
from harness.props import c01, c10

def check_doc(args):
    return c10.check_doc(args, 'C11')


INV = ['C01_RoundTrip', 'C02_Structure', 'C03_Search', 'OutcomeIsDiagnostic']
BUILTIN = ['verbatim', 'lstlisting', 'verbatimtab', 'Verbatim', 'listing']
USER = ['myverb', 'code*', 'align*', 'my code']        # align* is also a math environment name: the option wins
BODIES = ['x', ' $ { ', '\n\\a{\n', '}', 'a]', 'b[', '$', '$$x', '\\begin{e}', '\\end{e}', '\\begin{verbatim}', '%c\nd', 'a\\end{e}b',
          '\\item', '\\(', '\\end', '\\end{', ' \\end {e} ', '\\a{y}', 'x\\\\', '\\end{verbatimx}', '\\[', '\n', ' ', '\\end{ e}', '\\end{$}',
          '\\end{itemize', '\\begin{itemize}\\item', 'a%{\r', '%c\r\nd', 'x = \\left', 'w \\verb|\n', 'a | b', ' a_{1 \\textbf{x $ [ ']
# in scope by the letter of the property (the body does not START with a brace / bracket) but read as options today:
FINDING_BODIES = ['\n{x}y', ' [', '\n{ "a": 1']
NAMES = ['a', 'e', 'begin', 'end', 'item', 'itemize']


def scopes(chk):
    quick = chk.tier == 'quick'
    common = {'ComPool': [], 'Leaves': [], 'Seps': [''], 'CmdNames': [], 'ListNames': [], 'MathKinds': [], 'MEnvNames': [], 'Labels': [''],
              'ExtraQueries': NAMES, 'UserSkipG': USER, 'TextPool': ['t', '\n'], 'EnvNames': ['e', 'document'], 'MaxSib': 2, 'MaxDepth': 3}
    sc = []
    p = dict(common)
    p.update({'Budget': 3, 'VerbNames': BUILTIN + USER, 'VerbBodies': ['x', ' $ { ', '\\end{e}\\a{', '%c\n}']})
    sc.append(('names', p))
    p = dict(common)
    p.update({'Budget': 2 if quick else 3, 'VerbNames': ['verbatim', 'myverb'] if quick else ['verbatim', 'lstlisting', 'myverb', 'code*'], 'VerbBodies': BODIES})
    sc.append(('bodies', p))
    p = dict(common)
    p.update({'Budget': 2, 'VerbNames': ['lstlisting', 'myverb'], 'VerbBodies': FINDING_BODIES, 'TextPool': ['t']})
    sc.append(('leading-break', p))
    return sc


def run(chk):
    chk.rule = ('TLC generates documents with the DocGen machine in which verbatim-like environments (every built-in name and user '
                'names passed via skip_envs) with every body of a hostile alphabet obeying the three provisos stand at top level '
                'and nested in named environments with surrounding content; the oracle has ONE text leaf = the body. TLC checks the '
                'reader machine reproduces it, never errs, and that names occurring only inside bodies are not found. Each '
                'document is replayed on the real parser with the same skip_envs: exact text, abstract tree = oracle, search '
                'blind. A second scope uses the user names WITHOUT the option as ordinary environments (parsed normally). '
                'A case is a document.')
    for label, pools in scopes(chk):
        recs, p = D.generate(chk, label, pools, INV if label != 'leading-break' else ['OutcomeIsDiagnostic'])
        c01.replay_docs(chk, recs, p['UserSkipG'], check_doc, 'verbatim body must be one uninterpreted text leaf')
        for r in sorted(recs, key=lambda r: -len(r['i']))[:2]:
            chk.sample({'source': from_atoms(r['i']), 'skip_envs': p['UserSkipG']})
    # without the option the same names are ordinary environments
    off = {'ComPool': [], 'Leaves': [], 'CmdNames': ['a'], 'ListNames': [], 'MathKinds': ['$'], 'MEnvNames': [], 'VerbNames': [],
           'EnvNames': ['myverb', 'code*'], 'TextPool': ['x', ' '], 'Budget': 4, 'MaxSib': 2, 'UserSkipG': []}
    recs, p = D.generate(chk, 'option-off', off, ['C01_RoundTrip', 'C02_Structure', 'C03_Search'])
    from harness.props import c03
    c01.replay_docs(chk, recs, [], c03.check_doc, 'without skip_envs the body is parsed normally (commands inside are found)')
    chk.exhaustive = False
    chk.assumptions += ['provisos taken literally: body does not start with { or [, does not end with a backslash, no % on the closing '
                        'line, no \\end{name} inside', 'verbatim-like environments at top level or nested in named environments only']


def replay(chk, path):
    case = json.load(open(path))
    return D.replay_case(chk, case, 'C11-tree-depends-on-payload')

"""C04 Navigation views of a node are mutually consistent."""
import json
import os

from harness import docs as D, tlc, obs
from harness.tlc import from_atoms, to_atoms

INV = ['C02_Structure', 'C01_RoundTrip']


def record_views(src, skip=()):
    """dump the views of every node of the real tree as small integer ids"""
    from TexSoup import TexSoup
    from TexSoup.data import TexNode, TexText, TexExpr

    def run():
        soup = TexSoup(src, skip_envs=tuple(skip))
        ids = {}
        attr = []

        def key(x):
            if isinstance(x, TexNode):
                x = x.expr
            if isinstance(x, TexText):
                obj, istext, text = x._text, True, str(x)
            elif isinstance(x, TexExpr):
                obj, istext, text = x, False, ''
            else:
                obj, istext, text = x, True, str(x)
            k = id(obj)
            if k not in ids:
                ids[k] = len(ids) + 1
                attr.append({'t': istext, 'w': istext and text.isspace(), 'n': 0})
            return ids[k]

        nodes = []
        chains_ok = True

        def visit(n):
            me = key(n)
            idx = len(nodes)
            rec = {'id': me}
            nodes.append(rec)
            attr[me - 1]['n'] = idx + 1
            pok = True
            al = list(n.expr.all)          # the property names expr.all as the complete content list
            co = list(n.contents)
            ch = list(n.children)
            indexed = [n[i] for i in range(len(co))] + ([n[-1]] if co else [])
            for view in (ch, [c for c in co if isinstance(c, TexNode)], [c for c in n if isinstance(c, TexNode)], [c for c in indexed if isinstance(c, TexNode)]):
                for c in view:
                    if c.parent is not n:
                        pok = False
            rec['all'] = [key(c) for c in al]
            rec['contents'] = [key(c) for c in co]
            rec['children'] = [key(c) for c in ch]
            rec['iter'] = [key(c) for c in n]
            rec['index'] = [key(n[i]) for i in range(len(co))]
            rec['desc'] = [key(c) for c in n.descendants]
            rec['text'] = [key(c) for c in n.text]
            rec['pok'] = pok
            for c in co:
                if isinstance(c, TexNode):
                    visit(c)

        visit(soup)
        for d in soup.descendants:
            if isinstance(d, TexNode):
                p, steps = d, 0
                while p.parent is not None and steps < 200:
                    p, steps = p.parent, steps + 1
                if p is not soup:
                    chains_ok = False
        for f in soup.find_all([a for a in ['a', 'bb', 'e', 'item', 'itemize', 'equation', '$', 'BraceGroup']]):
            p, steps = f, 0
            while p.parent is not None and steps < 200:
                p, steps = p.parent, steps + 1
            if p is not soup:
                chains_ok = False
        return {'src': to_atoms(src), 'allstr': to_atoms(''.join(str(x) for x in soup.all)), 'attr': attr, 'nodes': nodes,
                'chains_ok': chains_ok}
    o, v = obs.guarded(run)
    if o != 'ok':
        return {'error': o, 'src': to_atoms(src)}
    return v


def _rec_job(args):
    return record_views(*args)


def validate(chk, views, label, timeout=3000):
    good = [v for v in views if 'error' not in v]
    for v in views:
        if 'error' in v:
            chk.violation('C04-exception', {'input': from_atoms(v['src']), 'kind': 'views', 'exception': v['error']})
    if not good:
        return
    d = tlc.workdir('C04_' + label)
    with open(os.path.join(d, 'views.ndjson'), 'w') as f:
        for v in good:
            f.write(json.dumps(v) + '\n')
    tlc.write_mc(d, 'MCV', 'ViewsTrace', [], 'SPECIFICATION Spec\nINVARIANT Verdict\nCHECK_DEADLOCK FALSE\n')
    res = tlc.run(d, 'MCV', timeout=timeout)
    chk.add_tlc(label, res, 'ViewsTrace: views of every node of %d documents recorded from the real tree' % len(good))
    verd = {r['tid']: r for r in res.records if 'tid' in r}
    if len(verd) != len(good):
        raise tlc.MachineryError('ViewsTrace: %d verdicts for %d documents (%s)' % (len(verd), len(good), d))
    chk.traces += len(good)
    for k, v in enumerate(good, 1):
        src = from_atoms(v['src'])
        chk.case(src)
        if verd[k]['failing']:
            chk.violation('C04-' + '+'.join(sorted(verd[k]['failing'])), {'input': src, 'kind': 'views', 'nodes': len(v['nodes'])})


def run(chk):
    quick = chk.tier == 'quick'
    chk.rule = ('TLC generates every well-formed document within the budget (and checks the machine reproduces the oracle); for '
                'each document - and for the corpus documents - the harness records from the real tree, for every node, the '
                'items of all / contents / children / iteration / indexing / descendants / text as object ids, the parent of '
                'every item handed out and the parent chain of every descendant and search result; ViewsTrace.tla (TLC) checks '
                'the relations the property states between those recorded views. A case is a document.')
    sc = [('docs', {'Budget': 3}),
          ('blank', {'Budget': 3, 'TextPool': [' ', '\n', 'a', ' \n ', '\r', '\r\n', '\t', '\x0c', '\u00a0'], 'ComPool': [], 'MathKinds': ['$'], 'MEnvNames': [],
                     'VerbNames': ['verbatim', 'lstlisting'], 'VerbBodies': [' ', '\n', 'x'], 'Leaves': [], 'MaxSib': 3}),
          ('deep', {'Budget': 4 if quick else 5, 'TextPool': ['t', ' '], 'ComPool': [], 'MathKinds': ['$'], 'MEnvNames': [],
                    'VerbNames': [], 'Leaves': [], 'CmdNames': ['a'], 'EnvNames': ['e'], 'Labels': [''], 'MaxSib': 2, 'MaxDepth': 4, 'MaxArgs': 1})]
    if not quick:       # one node more over reduced pools (every document is validated by TLC, which bounds what fits)
        sc.append(('docs4', {'Budget': 4, 'TextPool': ['a', ' ', '\n\n'], 'ComPool': ['c'], 'Leaves': [], 'MathKinds': ['$', '\\['], 'VerbBodies': ['x'],
                             'CmdNames': ['a'], 'Labels': ['']}))
        sc.append(('blank4', {'Budget': 4, 'TextPool': [' ', '\n', 'a', '\r'], 'ComPool': [], 'MathKinds': ['$'], 'MEnvNames': [], 'VerbNames': ['verbatim'],
                              'VerbBodies': [' ', 'x'], 'Leaves': [], 'MaxSib': 3, 'CmdNames': ['a'], 'Labels': ['']}))
    for label, pools in sc:
        recs, p = D.generate(chk, label, pools, INV)
        views = obs.pmap(_rec_job, [(from_atoms(r['i']), tuple(p['UserSkipG'])) for r in recs])
        validate(chk, views, label)
        for r in sorted(recs, key=lambda r: -len(r['i']))[:2]:
            chk.sample(from_atoms(r['i']))
    srcs = []
    for s in D.corpus_docs():
        soup, o = D.observe_doc(s)
        if o['o'] == 'ok' and o['out'] == s:
            srcs.append(s)
    validate(chk, [record_views(s) for s in srcs], 'corpus')
    chk.exhaustive = False
    chk.assumptions += ['descendants compared as a multiset plus "every node once" (order not constrained)',
                        'object identity of the underlying expression / text token identifies an item across views']


def replay(chk, path):
    case = json.load(open(path))
    validate(chk, [record_views(case['input'])], 'replay')
    return chk.finish()

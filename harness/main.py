"""Dispatcher: ./check Cxx [--tier quick|thorough] [--replay PATH]"""
import argparse
import importlib
import os
import sys
import traceback

from harness import core, tlc


def main():
    ap = argparse.ArgumentParser()
    ap.add_argument('pid')
    ap.add_argument('--tier', default=os.environ.get('VERIF_TIER', 'quick'), choices=['quick', 'thorough'])
    ap.add_argument('--replay', default=None)
    a = ap.parse_args()
    try:
        seed = int(os.environ.get('VERIF_SEED', '0'))
    except ValueError:
        seed = 0
    pid = a.pid.upper()
    try:
        import TexSoup  # noqa
        repo = os.path.realpath(os.environ.get('VERIF_REPO', '/repo'))
        if not os.path.realpath(TexSoup.__file__).startswith(repo + '/'):
            core.machinery(pid, 'TexSoup imported from %s, not from %s' % (TexSoup.__file__, repo))
        mod = importlib.import_module('harness.props.' + pid.lower())
    except ImportError as e:
        core.machinery(pid, 'cannot import: %s' % e)
    chk = core.Check(pid, a.tier, seed)
    try:
        if a.replay:
            chk.replay_mode = True
            rc = mod.replay(chk, a.replay)
        else:
            mod.run(chk)
            rc = chk.finish()
    except tlc.MachineryError as e:
        core.machinery(pid, str(e))
    except Exception:
        traceback.print_exc()
        core.machinery(pid, 'harness failure (traceback above)')
    sys.exit(rc)


if __name__ == '__main__':
    main()

"""Run TLC / SANY and parse what they print.

Only the standard library is used.  Every TLC invocation runs under a timeout,
in its own metadir below /verif/build, and its complete output is kept next to
the generated MC files so a failed run can be inspected.
"""
import json
import os
import re
import shutil
import subprocess
import time

ROOT = os.path.dirname(os.path.dirname(os.path.abspath(__file__)))
SPEC = os.path.join(ROOT, 'spec')
BUILD = os.path.join(ROOT, 'build')
JAR = '/opt/veriftools/tla/tla2tools.jar:/opt/veriftools/tla/CommunityModules-deps.jar'


class MachineryError(Exception):
    """TLC/SANY crashed, timed out, or printed something we cannot read."""


def workdir(name):
    d = os.path.join(BUILD, name)
    if os.path.isdir(d):
        shutil.rmtree(d)
    os.makedirs(d)
    for f in os.listdir(SPEC):
        if f.endswith('.tla'):
            shutil.copy(os.path.join(SPEC, f), d)
    return d


# ---------------------------------------------------------------------------
# TLA+ literals
# ---------------------------------------------------------------------------
_ATOM = {'\\': '\\\\', '"': '\\"', '\n': '\\n', '\t': '\\t', '\r': '\\r'}
_NAMED = {'\x00': 'NUL', '\x7f': 'DEL', '\x0b': 'VT', '\x0c': 'FF'}
_UNNAMED = {v: k for k, v in _NAMED.items()}


def atom(c):
    """One character -> the spec's name for it (a string)."""
    if c in _NAMED:
        return _NAMED[c]
    if ord(c) < 32 and c not in '\n\t\r' or ord(c) > 126:
        return 'U+%04X' % ord(c)
    return c


def unatom(a):
    if a in _UNNAMED:
        return _UNNAMED[a]
    if len(a) > 1 and a.startswith('U+'):
        return chr(int(a[2:], 16))
    return a


def to_atoms(s):
    return [atom(c) for c in s]


def from_atoms(seq):
    return ''.join(unatom(a) for a in seq)


def tla_str(a):
    return '"' + ''.join(_ATOM.get(c, c) for c in a) + '"'


def tla_seq(s):
    """Python str -> TLA+ tuple of character atoms."""
    return '<<' + ','.join(tla_str(atom(c)) for c in s) + '>>'


def tla_val(v):
    """JSON-like Python value -> TLA+ expression (str = string atom)."""
    if isinstance(v, bool):
        return 'TRUE' if v else 'FALSE'
    if isinstance(v, int):
        return str(v) if v >= 0 else '(0-%d)' % -v
    if isinstance(v, str):
        return tla_str(v)
    if isinstance(v, (list, tuple)):
        return '<<' + ','.join(tla_val(x) for x in v) + '>>'
    if isinstance(v, (set, frozenset)):
        return '{' + ','.join(sorted(tla_val(x) for x in v)) + '}'
    if isinstance(v, dict):
        return '[' + ', '.join('%s |-> %s' % (k, tla_val(x)) for k, x in v.items()) + ']'
    raise TypeError(type(v))


# ---------------------------------------------------------------------------
# running
# ---------------------------------------------------------------------------
_STATS = re.compile(r'^(\d+) states generated, (\d+) distinct states found, (\d+) states left on queue', re.M)
_SIM = re.compile(r'The number of states generated: (\d+)')
_ERRWORDS = ('Error:', 'TLC threw', 'Exception in thread', 'was violated', 'Parsing or semantic analysis failed',
             'java.lang.', 'Deadlock reached')


class Result(object):
    def __init__(self):
        self.generated = 0
        self.distinct = 0
        self.wall = 0.0
        self.lines = []          # raw stdout lines
        self.records = []        # decoded PrintT(ToJson(..)) records
        self.violated = []       # names of violated invariants / properties
        self.errors = []         # machinery-level error lines
        self.coverage = {}       # action name -> (distinct, total)
        self.cmd = ''

    def stats(self):
        return {'states': self.distinct, 'transitions': self.generated}


def write_mc(d, name, extends, defs, cfg):
    """Emit MC module + cfg with literal constants.  defs: list of 'Name == expr' lines."""
    with open(os.path.join(d, name + '.tla'), 'w') as f:
        f.write('---- MODULE %s ----\nEXTENDS %s\n' % (name, extends))
        for line in defs:
            f.write(line + '\n')
        f.write('====\n')
    with open(os.path.join(d, name + '.cfg'), 'w') as f:
        f.write(cfg)


def run(d, name, workers=16, timeout=600, simulate=None, depth=None, seed=None, xss='512m',
        coverage=False, env=None, expect_violation=False, heap=None, extra=()):
    """Run TLC on d/name.tla with d/name.cfg.  Returns Result.

    A violated invariant is *not* an exception: it is reported in Result.violated
    (TLC's own verdict on the model); machinery failures raise MachineryError.
    """
    cmd = ['java', '-XX:+UseParallelGC']
    # cap the Java heap: the default (a quarter of the machine) let five concurrent checks exhaust the memory
    cmd.append('-Xmx' + (heap or os.environ.get('VERIF_TLC_HEAP', '8g')))
    cmd += ['-Xss' + xss, '-cp', JAR, 'tlc2.TLC', '-workers', str(workers),
            '-metadir', os.path.join(d, 'states_' + name), '-noGenerateSpecTE', '-config', name + '.cfg']
    if simulate is not None:
        s = 'num=%d' % simulate
        cmd += ['-simulate', s]
    if depth is not None:
        cmd += ['-depth', str(depth)]
    if seed is not None:
        cmd += ['-seed', str(seed)]
    if coverage:
        cmd += ['-coverage', '1']
    cmd += list(extra)
    cmd.append(name + '.tla')
    e = dict(os.environ)
    e.pop('JAVA_TOOL_OPTIONS', None)
    if env:
        e.update(env)
    t0 = time.time()
    try:
        p = subprocess.run(cmd, cwd=d, env=e, stdout=subprocess.PIPE, stderr=subprocess.STDOUT,
                           timeout=timeout, text=True, errors='replace')
    except subprocess.TimeoutExpired as ex:
        raise MachineryError('TLC timed out after %ss: %s' % (timeout, ' '.join(cmd)))
    r = Result()
    r.wall = time.time() - t0
    r.cmd = ' '.join(cmd)
    out = p.stdout
    with open(os.path.join(d, name + '.out'), 'w') as f:
        f.write(out)
    r.lines = out.splitlines()
    for line in r.lines:
        if line.startswith('"') and line.endswith('"') and len(line) > 1:
            try:
                r.records.append(json.loads(json.loads(line)))
                continue
            except ValueError:
                pass
        m = re.match(r'Error: Invariant (\S+) is violated', line)
        if m:
            r.violated.append(m.group(1))
            continue
        m = re.match(r'Error: Action property (\S+) is violated', line)
        if m:
            r.violated.append(m.group(1))
            continue
        if 'Temporal properties were violated' in line:
            r.violated.append('<temporal>')
            continue
        if line.startswith('Error:') and 'behavior up to this point' not in line:
            r.errors.append(line)
        elif 'Exception in thread' in line or line.startswith('java.lang.') or 'TLC threw' in line:
            r.errors.append(line)
    ms = _STATS.findall(out)
    if ms:
        g, dd, _ = ms[-1]
        r.generated, r.distinct = int(g), int(dd)
    else:
        m = _SIM.search(out)
        if m:
            r.generated = r.distinct = int(m.group(1))
    # errors caused by a violated invariant are expected companions
    real = [x for x in r.errors if not any(w in x for w in
                                           ('is violated', 'Invariant', 'Action property'))]
    if p.returncode not in (0, 12, 13) and not r.violated:
        raise MachineryError('TLC exit %d: %s\n%s' % (p.returncode, r.cmd, '\n'.join(r.lines[-25:])))
    if real and not r.violated:
        raise MachineryError('TLC reported: %s (%s)' % (real[:3], r.cmd))
    if r.generated == 0 and not r.violated:
        raise MachineryError('TLC printed no state statistics: %s\n%s' % (r.cmd, '\n'.join(r.lines[-25:])))
    if coverage:
        for line in r.lines:
            m = re.match(r'^<(\w+) line .*>: (\d+):(\d+)', line)
            if m:
                r.coverage[m.group(1)] = (int(m.group(2)), int(m.group(3)))
    return r


def sany(path):
    p = subprocess.run(['java', '-cp', JAR, 'tla2sany.SANY', os.path.basename(path)], cwd=os.path.dirname(path),
                       stdout=subprocess.PIPE, stderr=subprocess.STDOUT, text=True)
    ok = p.returncode == 0 and 'Semantic errors' not in p.stdout and 'Parse Error' not in p.stdout \
        and 'Fatal errors' not in p.stdout
    return ok, p.stdout

"""Projections of the real TexSoup objects onto the abstract state of the specification.

The only trusted Python besides the drivers: total functions, no guessing.
Imports TexSoup from /repo's working tree (the editable install of /venv, or PYTHONPATH).
"""
from harness.tlc import to_atoms

from TexSoup.data import (TexNode, TexExpr, TexText, TexCmd, TexEnv, TexNamedEnv, BraceGroup, BracketGroup,
                          TexMathModeEnv, TexDisplayMathModeEnv, TexMathEnv, TexDisplayMathEnv)
from TexSoup.utils import Token, TC

TOKCAT = {
    'Escape': 'Esc', 'GroupBegin': 'GB', 'GroupEnd': 'GE', 'Comment': 'Com', 'MergedSpacer': 'Sp',
    'EscapedComment': 'EscSym', 'MathSwitch': 'MS', 'DisplayMathSwitch': 'DMS', 'MathGroupBegin': 'MGB',
    'MathGroupEnd': 'MGE', 'DisplayMathGroupBegin': 'DMGB', 'DisplayMathGroupEnd': 'DMGE',
    'CommandName': 'Name', 'Text': 'Text', 'BracketBegin': 'BB', 'BracketEnd': 'BE',
    'PunctuationCommandName': 'Punct', 'LineBreak': 'LineBreak',
}


def tokcat(t):
    c = getattr(t, 'category', None)
    if c is None:
        return 'str'
    try:
        return TOKCAT.get(TC(c).name, TC(c).name)
    except ValueError:
        return 'cat%d' % int(c)


def kind_of(e):
    """(k, kind) of an expression."""
    if isinstance(e, TexNode):
        e = e.expr
    if isinstance(e, TexText):
        return 'text', None
    if isinstance(e, TexNamedEnv):
        return 'env', None
    if isinstance(e, BraceGroup):
        return 'group', '{'
    if isinstance(e, BracketGroup):
        return 'group', '['
    if isinstance(e, TexMathModeEnv):
        return 'math', '$'
    if isinstance(e, TexDisplayMathModeEnv):
        return 'math', '$$'
    if isinstance(e, TexMathEnv):
        return 'math', '\\('
    if isinstance(e, TexDisplayMathEnv):
        return 'math', '\\['
    if isinstance(e, TexCmd):
        return 'cmd', None
    if isinstance(e, TexEnv):
        return 'envx', None
    if isinstance(e, str):
        return 'text', None
    raise TypeError('unknown node type %r' % type(e))


def text_of(e):
    """(chars, pos, cat) of a text leaf (TexText, Token or plain str)."""
    if isinstance(e, TexText):
        t = e._text
    else:
        t = e
    pos = getattr(t, 'position', -1)
    if pos is None:
        pos = -1
    return str(t), pos, tokcat(t)


def tree(e):
    """Nested projection: the uniform record of TexTree.tla (as a dict)."""
    if isinstance(e, TexNode):
        e = e.expr
    k, kind = kind_of(e)
    if k == 'text':
        s, pos, cat = text_of(e)
        return {'k': 'text', 'kind': 'Com' if cat == 'Com' else cat, 's': s, 'pos': pos, 'name': '', 'args': [], 'body': []}
    name = e.name if k in ('cmd', 'env') else ''
    return {'k': k, 'kind': kind or '', 's': '', 'name': str(name), 'pos': e.position,
            'args': [tree(a) for a in e.args], 'body': [tree(x) for x in e._contents]}


def flat(e, out):
    """Flat(x) of TexTree.tla appended to out."""
    if isinstance(e, TexNode):
        e = e.expr
    k, kind = kind_of(e)
    if k == 'text':
        s, pos, _ = text_of(e)
        out += ['T', str(pos), str(len(s))]
        out += to_atoms(s)
        return out
    if k in ('cmd', 'env'):
        nm = str(e.name)
        out += ['C' if k == 'cmd' else 'E', str(e.position), str(len(nm))]
        out += to_atoms(nm)
        out.append(str(len(e.args)))
        for a in e.args:
            flat(a, out)
        out.append(str(len(e._contents)))
        for x in e._contents:
            flat(x, out)
        return out
    out += ['M' if k == 'math' else 'G', str(e.position), kind, str(len(e._contents))]
    for x in e._contents:
        flat(x, out)
    return out


def flat_seq(items):
    out = []
    for x in items:
        flat(x, out)
    return out


def abs_flat(items):
    """Abstract shape: no positions / token categories, adjacent plain text merged, empty text dropped."""
    out = []
    _abs_seq(items, out)
    return out


def _abs_seq(items, out):
    run = None           # pending merged plain text
    seq = []
    for x in items:
        k, kind = kind_of(x)
        if k == 'text':
            s, _, cat = text_of(x)
            if s == '':
                continue
            if cat == 'Com':
                if run is not None:
                    seq.append(('T', run))
                    run = None
                seq.append(('K', s))
            else:
                run = s if run is None else run + s
        else:
            if run is not None:
                seq.append(('T', run))
                run = None
            seq.append(('N', x))
    if run is not None:
        seq.append(('T', run))
    out.append(str(len(seq)))
    for tag, v in seq:
        if tag in ('T', 'K'):
            out += [tag, str(len(v))]
            out += to_atoms(v)
        else:
            e = v.expr if isinstance(v, TexNode) else v
            k, kind = kind_of(e)
            if k in ('cmd', 'env'):
                nm = str(e.name)
                out += ['C' if k == 'cmd' else 'E', str(len(nm))]
                out += to_atoms(nm)
                out.append(str(len(e.args)))
                for a in e.args:
                    _abs_seq([a], out)
                _abs_seq(e._contents, out)
            else:
                out += ['M' if k == 'math' else 'G', kind]
                _abs_seq(e._contents, out)
    return out


# ---- reading a flat encoding back (mirror of NameOf / OpenOf / CloseOf in TexTree.tla) ------------------------------
MATH_NAMES = {'$': ('$', '$', '$'), '$$': ('$$', '$$', '$$'), '\\(': ('math', '\\(', '\\)'), '\\[': ('displaymath', '\\[', '\\]')}


def names_from_flat(flat):
    """[name, begin, end] of every node that the views hand out (argument groups themselves are not handed out),
    from a flat tree encoding; sorted."""
    out = []
    pos = [0]

    def take():
        v = flat[pos[0]]
        pos[0] += 1
        return v

    def chars(n):
        from harness.tlc import from_atoms
        v = flat[pos[0]:pos[0] + n]
        pos[0] += n
        return from_atoms(v)

    def node(is_arg):
        tag = take()
        if tag == 'T':
            take()
            chars(int(take()))
            return
        if tag in ('C', 'E'):
            take()
            name = chars(int(take()))
            if tag == 'C':
                out.append([name, '', ''])
            else:
                out.append([name, '\\begin{%s}' % name, '\\end{%s}' % name])
            for _ in range(int(take())):
                node(True)
            for _ in range(int(take())):
                node(False)
            return
        take()
        kind = take()
        if tag == 'M':
            out.append(list(MATH_NAMES[kind]))
        elif not is_arg:
            out.append(['BraceGroup', '{', '}'] if kind == '{' else ['BracketGroup', '[', ']'])
        for _ in range(int(take())):
            node(False)
    while pos[0] < len(flat):
        node(False)
    return sorted(out)

"""Drive the real parser and record observations (the code side of both conformance directions)."""
import multiprocessing
import os
import signal
import sys

from harness.tlc import to_atoms, from_atoms

DIAG = ('ok', 'EOFError', 'TypeError', 'AssertionError')
HANG_S = float(os.environ.get('VERIF_HANG_S', '5'))


_warmed = False


class Hang(BaseException):
    pass


def _alarm(signum, frame):
    raise Hang()


def guarded(fn, *a, **k):
    """Run fn under the watchdog; returns (outcome, value).  A first 'hang' is not believed: the call is repeated once with six
    times the budget (on a heavily loaded machine page faults and collector pauses were seen to use up the first budget on
    inputs that parse in milliseconds); only a call that exceeds that too is reported as a hang."""
    import time
    global _warmed
    if not _warmed:
        _warmed = True
        _warm()
    t0, w0 = time.process_time(), time.time()
    o, v = _guarded_once(HANG_S, fn, a, k)
    if o == 'hang':
        t1, w1 = time.process_time(), time.time()
        o, v = _guarded_once(6 * HANG_S, fn, a, k)
        try:        # diagnostic trail of budget overruns that a second attempt did not confirm (build/ is not committed)
            with open(os.path.join(os.path.dirname(os.path.dirname(os.path.abspath(__file__))), 'build', 'unconfirmed_hangs.log'), 'a') as f:
                f.write('pid=%d first: cpu=%.2fs wall=%.2fs; second: %s cpu=%.2fs\n' % (os.getpid(), t1 - t0, w1 - w0, o, time.process_time() - t1))
        except OSError:
            pass
    return o, v


def _guarded_once(budget, fn, a, k):
    # the budget is CPU time of this process (a parser that hangs is busy), so that a loaded machine cannot turn a slow
    # wall clock into a false 'hang'; a generous wall-clock limit stays as a backstop
    signal.signal(signal.SIGPROF, _alarm)
    signal.signal(signal.SIGALRM, _alarm)
    signal.setitimer(signal.ITIMER_PROF, budget)
    signal.setitimer(signal.ITIMER_REAL, max(300.0, 60 * budget))
    try:
        v = fn(*a, **k)
        return 'ok', v
    except Hang:
        return 'hang', None
    except RecursionError:
        return 'leak:RecursionError', None
    except EOFError:
        return 'EOFError', None
    except TypeError:
        return 'TypeError', None
    except AssertionError:
        return 'AssertionError', None
    except BaseException as e:      # noqa
        return 'leak:' + type(e).__name__, None
    finally:
        signal.setitimer(signal.ITIMER_PROF, 0)
        signal.setitimer(signal.ITIMER_REAL, 0)


def parse_once(src, tol, skip=()):
    """One real parse -> {o, out, flat, abs} (atoms / flat lists as in the spec)."""
    from TexSoup import TexSoup
    from harness import proj

    def run():
        soup = TexSoup(src, skip_envs=tuple(skip), tolerance=tol)
        out = str(soup)
        items = soup.expr._contents
        return out, proj.flat_seq(items), proj.abs_flat(items)
    o, v = guarded(run)
    if o != 'ok':
        return {'o': o, 'out': [], 'flat': [], 'abs': [], 'outs': ''}
    out, fl, ab = v
    return {'o': 'ok', 'out': to_atoms(out), 'flat': fl, 'abs': ab, 'outs': out}


def tokens_once(src):
    from TexSoup.tokens import tokenize
    from TexSoup.category import categorize
    from harness import proj

    def run():
        ts = list(tokenize(categorize(src)))
        return ([[str(t.position), str(len(str(t))), proj.tokcat(t)] for t in ts],
                [{'p': t.position, 's': to_atoms(str(t))} for t in ts])
    o, v = guarded(run)
    return {'o': o, 'toks': v[0] if o == 'ok' else [], 'tokt': v[1] if o == 'ok' else []}


def experiment(src, skip=()):
    """The A/B/C experiment of Strings.tla on the real code."""
    A = parse_once(src, 0, skip)
    B = parse_once(src, 1, skip)
    if A['o'] == 'ok':
        C = parse_once(A['outs'], 0, skip)
    else:
        C = {'o': 'none', 'out': [], 'flat': [], 'abs': [], 'outs': ''}
    T = tokens_once(src)
    for r in (A, B, C):
        r.pop('outs', None)
    return {'i': to_atoms(src), 'A': A, 'B': B, 'C': C, 'toks': T['toks'], 'tokt': T['tokt'], 'tokso': T['o']}


def _exp_job(args):
    src, skip = args
    return experiment(src, skip)


_pool = None


def _warm():
    """import the library and parse once OUTSIDE any watchdog window: on a freshly restored machine the first import in a
    worker (no byte-code cache, cold file system) was seen to use up the watchdog budget of the first document it parsed"""
    try:
        from TexSoup import TexSoup
        from harness import proj  # noqa
        str(TexSoup('\\a{b} $c$ \\begin{e}x\\end{e}'))
    except Exception:   # noqa
        pass


def pool():
    global _pool
    if _pool is None:
        _warm()
        _pool = multiprocessing.Pool(int(os.environ.get('VERIF_PROCS', '16')), initializer=_warm)
    return _pool


def experiments(srcs, skip=()):
    """srcs: list of str -> list of experiment records (same order)."""
    if len(srcs) < 64:
        return [experiment(s, skip) for s in srcs]
    return pool().map(_exp_job, [(s, skip) for s in srcs], chunksize=max(1, min(2000, len(srcs) // 64)))


def pmap(fn, items, chunk=None, force=False):
    if len(items) < 64 and not force:
        return [fn(x) for x in items]
    return pool().map(fn, items, chunksize=chunk or max(1, min(2000, len(items) // 64)))


FRESH_SCRIPT = r"""
import sys, json
sys.path.insert(0, %r); sys.path.insert(0, %r)
from harness import obs
src = json.load(open(sys.argv[1]))
print(json.dumps(obs.experiment(src['i'], tuple(src['skip']))))
"""


def fresh_experiment(src, skip=()):
    """the A/B/C experiment in a FRESH interpreter (nothing an earlier parse did can influence it)"""
    import json
    import subprocess
    import tempfile
    root = os.path.dirname(os.path.dirname(os.path.abspath(__file__)))
    repo = os.environ.get('VERIF_REPO', '/repo')
    with tempfile.TemporaryDirectory(dir=os.path.join(root, 'build')) as d:
        with open(os.path.join(d, 'in.json'), 'w') as f:
            json.dump({'i': src, 'skip': list(skip)}, f)
        with open(os.path.join(d, 'run.py'), 'w') as f:
            f.write(FRESH_SCRIPT % (root, repo))
        p = subprocess.run([sys.executable, os.path.join(d, 'run.py'), os.path.join(d, 'in.json')], stdout=subprocess.PIPE,
                           stderr=subprocess.PIPE, text=True, timeout=120, env=dict(os.environ, PYTHONHASHSEED='0'))
        if p.returncode != 0:
            return None
        return json.loads(p.stdout.strip().splitlines()[-1])

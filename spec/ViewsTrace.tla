----------------------------- MODULE ViewsTrace -----------------------------
(***************************************************************************)
(* C04 on recorded observations: for every document the harness dumps,     *)
(* per node reached from the root, the items of the views                  *)
(*   all / contents / children / iteration / indexing / descendants / text *)
(* as small integer ids (one id per underlying expression or text token),  *)
(* whether the parent of every item handed out is the node it was reached  *)
(* from, and the parent chains of all descendants.  The oracle is the      *)
(* relation BETWEEN THE CODE'S OWN VIEWS, exactly as the property states;  *)
(* the operators below are those relations.                                *)
(*   views.ndjson: [src, allstr, attr |-> << [t, w, n] >>,                 *)
(*                  nodes |-> << [id, all, contents, children, iter, index,*)
(*                               desc, text, pok] >>, chains_ok]           *)
(*   attr[id] = [t |-> is text, w |-> is whitespace-only text,             *)
(*               n |-> index into nodes of the node with that id, or 0]    *)
(***************************************************************************)
EXTENDS Naturals, Sequences, FiniteSets, TLC, Json

Docs == ndJsonDeserialize("views.ndjson")
VARIABLE tid
Init == tid = 0
Next == tid = 0 /\ \E k \in 1..Len(Docs) : tid' = k
Spec == Init /\ [][Next]_tid
D == Docs[tid]

RECURSIVE Flatten(_)
Flatten(ss) == IF ss = <<>> THEN <<>> ELSE Head(ss) \o Flatten(Tail(ss))
IsText(id) == D.attr[id].t
IsWs(id) == D.attr[id].w
NodeOf(id) == D.nodes[D.attr[id].n]
Count(x, s) == Cardinality({i \in 1..Len(s) : s[i] = x})
SameBag(a, b) == Len(a) = Len(b) /\ \A i \in 1..Len(a) : Count(a[i], a) = Count(a[i], b)
NoDup(s) == \A i \in 1..Len(s) : Count(s[i], s) = 1

ContentsOK(nd) == nd.contents = SelectSeq(nd.all, LAMBDA x : ~IsWs(x))
ChildrenOK(nd) == nd.children = SelectSeq(nd.contents, LAMBDA x : ~IsText(x))
IterOK(nd) == nd.iter = nd.contents /\ nd.index = nd.contents
(* descendants = contents plus the descendants of every child, every node once *)
DescOK(nd) == /\ SameBag(nd.desc, nd.contents \o Flatten([i \in 1..Len(nd.children) |-> NodeOf(nd.children[i]).desc]))
              /\ NoDup(nd.desc)
(* text = the non-blank text leaves in document order *)
TextOK(nd) == nd.text = Flatten([i \in 1..Len(nd.contents) |->
                                   IF IsText(nd.contents[i]) THEN << nd.contents[i] >> ELSE NodeOf(nd.contents[i]).text])
ParentOK(nd) == nd.pok
RootAllOK == D.allstr = D.src
ViewFailing ==
  {c \in {"contents", "children", "iter", "descendants", "text", "parent", "rootall", "chains"} :
     CASE c = "contents" -> \E k \in 1..Len(D.nodes) : ~ContentsOK(D.nodes[k])
       [] c = "children" -> \E k \in 1..Len(D.nodes) : ~ChildrenOK(D.nodes[k])
       [] c = "iter" -> \E k \in 1..Len(D.nodes) : ~IterOK(D.nodes[k])
       [] c = "descendants" -> \E k \in 1..Len(D.nodes) : ~DescOK(D.nodes[k])
       [] c = "text" -> \E k \in 1..Len(D.nodes) : ~TextOK(D.nodes[k])
       [] c = "parent" -> \E k \in 1..Len(D.nodes) : ~ParentOK(D.nodes[k])
       [] c = "rootall" -> ~RootAllOK
       [] OTHER -> ~D.chains_ok}
Verdict == (tid > 0) => PrintT(ToJson([tid |-> tid, failing |-> ViewFailing]))
=============================================================================

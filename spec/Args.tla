--------------------------------- MODULE Args ---------------------------------
(***************************************************************************)
(* data.TexArgs as a Python list of argument groups (C18).                 *)
(*                                                                         *)
(* Reference model: a plain sequence of items under *textual* equality     *)
(* (the library's __eq__), which is exactly how a Python list of these     *)
(* objects behaves.  An item is [id, t]: id distinguishes objects with the *)
(* same text (twins; 0 = freshly coerced from a string), t is its text.    *)
(* Values offered to the list are [id, t, ok]: ok = FALSE for a string     *)
(* with mismatched delimiters (must be rejected without changing the       *)
(* list).                                                                  *)
(***************************************************************************)
EXTENDS Naturals, Integers, Sequences, FiniteSets, TLC, Json

CONSTANTS Vals,      \* set of values [id, t, ok]
          AOps,      \* set of operations [k, i, j, st, v, vs]
          MaxLen,    \* longest list explored
          MaxHist

VARIABLES lst, last, hist
avars == <<lst, last, hist>>

RECURSIVE Concat(_)
Concat(ss) == IF ss = <<>> THEN <<>> ELSE Head(ss) \o Concat(Tail(ss))
Item(v) == [id |-> v.id, t |-> v.t]
Texts(l) == [k \in 1..Len(l) |-> l[k].t]
Ids(l) == [k \in 1..Len(l) |-> ToString(l[k].id)]
Eq(a, b) == a.t = b.t                       \* TexExpr.__eq__: str(a) == str(b)
RECURSIVE FirstEq(_, _, _)
FirstEq(l, k, v) == IF k > Len(l) THEN 0 ELSE IF Eq(l[k], v) THEN k ELSE FirstEq(l, k+1, v)
RemoveAt(l, k) == SubSeq(l, 1, k-1) \o SubSeq(l, k+1, Len(l))
InsertAt(l, k, x) == SubSeq(l, 1, k) \o << x >> \o SubSeq(l, k+1, Len(l))       \* after k items
RECURSIVE Rev(_)
Rev(l) == IF l = <<>> THEN <<>> ELSE Append(Rev(Tail(l)), Head(l))
(* python index normalisation *)
NormIns(n, i) == IF i < 0 THEN (IF n + i < 0 THEN 0 ELSE n + i) ELSE (IF i > n THEN n ELSE i)
NormGet(n, i) == IF i < 0 THEN n + i ELSE i          \* valid iff 0 <= result < n
(* python slice l[a:b:st] for st > 0, a/b possibly negative; "none" encoded as 99 / -99 by the caller *)
ClampS(n, x) == IF x < 0 THEN (IF n + x < 0 THEN 0 ELSE n + x) ELSE (IF x > n THEN n ELSE x)
RECURSIVE SliceFrom(_, _, _, _)
SliceFrom(l, a, b, st) == IF a >= b THEN <<>> ELSE << l[a+1] >> \o SliceFrom(l, a + st, b, st)
Slice(l, a, b, st) == SliceFrom(l, ClampS(Len(l), a), ClampS(Len(l), b), st)

Ok(l) == [l |-> l, r |-> <<"ok">>]
Exc(l, e) == [l |-> l, r |-> <<"exc", e>>]
RetItem(l, x) == [l |-> l, r |-> <<"item", ToString(x.id)>> \o x.t]
RetList(l, xs) == [l |-> l, r |-> <<"list", ToString(Len(xs))>> \o Concat([k \in 1..Len(xs) |-> <<ToString(xs[k].id), "|">> \o xs[k].t \o <<"|">>])]
RetBool(l, b) == [l |-> l, r |-> <<"bool", IF b THEN "T" ELSE "F">>]

(* [l |-> new list, r |-> result] *)
Apply(op, l) ==
  CASE op.k = "append" -> IF ~op.v.ok THEN Exc(l, "TypeError") ELSE Ok(Append(l, Item(op.v)))
    [] op.k = "insert" -> IF ~op.v.ok THEN Exc(l, "TypeError") ELSE Ok(InsertAt(l, NormIns(Len(l), op.i), Item(op.v)))
    [] op.k = "extend" -> IF \E k \in 1..Len(op.vs) : ~op.vs[k].ok THEN Exc(l, "TypeError")     \* atomic reading, see note in the harness
                          ELSE Ok(l \o [k \in 1..Len(op.vs) |-> Item(op.vs[k])])
    \* a[i] = v, del a[i], del a[i:j], a[i:j] = vs, a += vs: the list laws of item / slice assignment and deletion
    [] op.k = "set" -> LET k == NormGet(Len(l), op.i) IN
                       IF ~op.v.ok THEN Exc(l, "TypeError")
                       ELSE IF k < 0 \/ k >= Len(l) THEN Exc(l, "IndexError") ELSE Ok([l EXCEPT ![k+1] = Item(op.v)])
    [] op.k = "del" -> LET k == NormGet(Len(l), op.i) IN
                       IF k < 0 \/ k >= Len(l) THEN Exc(l, "IndexError") ELSE Ok(RemoveAt(l, k+1))
    [] op.k = "delslice" -> LET a == ClampS(Len(l), op.i)
                                b == ClampS(Len(l), op.j) IN
                            Ok(IF a >= b THEN l ELSE SubSeq(l, 1, a) \o SubSeq(l, b+1, Len(l)))
    [] op.k = "setslice" -> LET a == ClampS(Len(l), op.i)
                                b0 == ClampS(Len(l), op.j)
                                b == IF b0 < a THEN a ELSE b0 IN
                            IF \E k \in 1..Len(op.vs) : ~op.vs[k].ok THEN Exc(l, "TypeError")
                            ELSE Ok(SubSeq(l, 1, a) \o [k \in 1..Len(op.vs) |-> Item(op.vs[k])] \o SubSeq(l, b+1, Len(l)))
    [] op.k = "iadd" -> IF \E k \in 1..Len(op.vs) : ~op.vs[k].ok THEN Exc(l, "TypeError")
                        ELSE Ok(l \o [k \in 1..Len(op.vs) |-> Item(op.vs[k])])
    [] op.k = "assign_self" -> Ok(l)                                                            \* owner.args = owner.args
    [] op.k = "extend_self" -> Ok(l \o l)                                                      \* a.extend(a): the list doubled, like list
    [] op.k = "remove" -> IF ~op.v.ok THEN Exc(l, "TypeError")
                          ELSE LET k == FirstEq(l, 1, op.v) IN IF k = 0 THEN Exc(l, "ValueError") ELSE Ok(RemoveAt(l, k))
    [] op.k = "pop" -> LET k == NormGet(Len(l), op.i) IN
                       IF k < 0 \/ k >= Len(l) THEN Exc(l, "IndexError") ELSE RetItem(RemoveAt(l, k+1), l[k+1])
    [] op.k = "pop_default" -> IF l = <<>> THEN Exc(l, "IndexError") ELSE RetItem(SubSeq(l, 1, Len(l) - 1), l[Len(l)])   \* a.pop()
    [] op.k = "reverse" -> Ok(Rev(l))
    [] op.k = "clear" -> Ok(<<>>)
    [] op.k = "get" -> LET k == NormGet(Len(l), op.i) IN
                       IF k < 0 \/ k >= Len(l) THEN Exc(l, "IndexError") ELSE RetItem(l, l[k+1])
    [] op.k = "slice" -> RetList(l, Slice(l, op.i, op.j, op.st))
    [] op.k = "contains" -> IF ~op.v.ok THEN RetBool(l, FALSE) ELSE RetBool(l, FirstEq(l, 1, op.v) # 0)
    [] OTHER -> Exc(l, "unknown-op")

NoOp == [k |-> "init", i |-> 0, j |-> 0, st |-> 1, v |-> [id |-> 0, t |-> <<>>, ok |-> TRUE], vs |-> <<>>]
Init == lst = <<>> /\ last = [op |-> NoOp, r |-> <<>>] /\ hist = <<>>
Grows(op) == op.k \in {"append", "insert", "extend", "extend_self", "iadd", "setslice"}
Do(op) == /\ (Grows(op) => Len(lst) + (IF op.k \in {"extend", "iadd", "setslice"} THEN Len(op.vs) ELSE IF op.k = "extend_self" THEN Len(lst) ELSE 1) <= MaxLen)
          /\ LET res == Apply(op, lst) IN
             /\ lst' = res.l
             /\ last' = [op |-> op, r |-> res.r]
             /\ hist' = Append(hist, [op |-> op, r |-> res.r, texts |-> Texts(res.l), ids |-> Ids(res.l)])
Next == Len(hist) < MaxHist /\ \E op \in AOps : Do(op)
Spec == Init /\ [][Next]_avars
View == <<lst, last>>

(* ---- the property as invariants of the model ---- *)
StrIsConcat == TRUE     \* serialisation = Concat(Texts(lst)) by construction; checked on the code by the replay
BadStringRejectedAtomically == [][(last'.r = <<"exc", "TypeError">>) => lst' = lst]_avars
ErrorsAreAtomic == [][(last'.r # <<>> /\ last'.r[1] = "exc") => lst' = lst]_avars
LenBound == Len(lst) <= MaxLen
Dump == (hist # <<>>) => PrintT(ToJson([h |-> hist]))
=============================================================================

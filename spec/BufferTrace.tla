----------------------------- MODULE BufferTrace -----------------------------
(***************************************************************************)
(* Trace validation for utils.Buffer: each line of traces.ndjson is one    *)
(* recorded execution  [s |-> items, h |-> << [op, r, c], ... >>]  of the  *)
(* real class (r = result, c = cursor position after the call).  Every     *)
(* event must be an enabled operation of the model whose result and cursor *)
(* equal the recorded ones.  Verdict per trace: accepted, or the index of  *)
(* the first rejected event with the failing clause.                       *)
(***************************************************************************)
EXTENDS Buffer

Traces == ndJsonDeserialize("traces.ndjson")
VARIABLES tid, l, bad
tvars == <<bvars, tid, l, bad>>

TInit == /\ tid \in 1..Len(Traces) /\ seq = Traces[tid].s /\ i = 0 /\ prev = NoOp
         /\ last = [op |-> NoOp, r |-> <<>>, c |-> 0] /\ hist = <<>> /\ l = 1 /\ bad = "ok"
Ev == Traces[tid].h[l]
TStep == /\ bad = "ok" /\ l <= Len(Traces[tid].h)
         /\ LET op == Ev.op
                res == Apply(op, seq, i) IN
            /\ bad' = IF ~InRange(op, seq, i) THEN "out-of-scope"
                      ELSE IF res.r # Ev.r THEN "result"
                      ELSE IF res.c # Ev.c THEN "cursor" ELSE "ok"
            /\ i' = res.c /\ last' = [op |-> op, r |-> res.r, c |-> res.c]
            /\ prev' = last.op /\ l' = l + 1
         /\ UNCHANGED <<seq, hist, tid>>
TSpec == TInit /\ [][TStep]_tvars
Done == bad # "ok" \/ l > Len(Traces[tid].h)
Verdict == Done => PrintT(ToJson([tid |-> tid, verdict |-> bad, at |-> l - 1]))
=============================================================================

-------------------------------- MODULE Lexer --------------------------------
(***************************************************************************)
(* Lexer-only experiments (C19, lexer part of C17): every string over a    *)
(* character alphabet up to a length bound (plus given sources) is         *)
(* tokenized by the lexer of TexMachine; the partition invariants are      *)
(* checked in every state and the final token list is dumped for replay.   *)
(***************************************************************************)
EXTENDS TexMachine, Json

CONSTANTS Chars,     \* set of characters (atoms)
          MaxLen,    \* maximal length of generated strings
          LSources   \* set of additional complete sources

VARIABLE stage       \* "gen" | "lex" | "end"
lvars == <<mvars, stage>>

LInit == MInit /\ stage = "gen"
LExtend == /\ stage = "gen" /\ Len(input) < MaxLen
           /\ \E c \in Chars : input' = Append(input, c)
           /\ UNCHANGED <<phase, tol, uskip, pos, toks, tp, stack, outcome, root, steps, stage>>
LStart == /\ stage = "gen" /\ stage' = "lex" /\ phase' = "lex"
          /\ UNCHANGED <<input, tol, uskip, pos, toks, tp, stack, outcome, root, steps>>
LPick == /\ stage = "gen" /\ input = <<>> /\ \E s \in LSources : input' = s
         /\ stage' = "lex" /\ phase' = "lex"
         /\ UNCHANGED <<tol, uskip, pos, toks, tp, stack, outcome, root, steps>>
LStep == /\ stage = "lex" /\ (LexIgnore \/ LexRound) /\ UNCHANGED stage
LEnd == /\ stage = "lex" /\ pos >= n /\ stage' = "end" /\ UNCHANGED mvars
LNext == LExtend \/ LStart \/ LPick \/ LStep \/ LEnd
LSpec == LInit /\ [][LNext]_lvars

C19_NonEmpty == NonEmptyTokens
C19_TokPos == TokPosTrue
C19_Partition == Partition
C19_Complete == (stage = "end") => (pos = n /\ DropIgn(CatToks(toks)) = DropIgn(input))
C17_LexDeterminism == (stage = "lex") => LexDeterminism
LexProgressP == [][stage = "lex" /\ stage' = "lex" => pos' > pos]_lvars
PunctOK == PunctPrefixFree

LDump == (stage = "end") => PrintT(ToJson([i |-> input, toks |-> [k \in 1..Len(toks) |-> <<N2S(toks[k].p), N2S(Len(toks[k].s)), toks[k].c>>]]))
=============================================================================

------------------------------- MODULE Session -------------------------------
(***************************************************************************)
(* A user session with two documents (C17, second half): parses, edits,    *)
(* re-parses and drops are interleaved on two slots.  The model keeps, per *)
(* slot, only what determines its content: the source it was parsed from   *)
(* (and how it was fed) and the edits applied since.  ISOLATION is the     *)
(* action property that a step on one slot leaves the other slot's         *)
(* determining history unchanged; the harness replays every interleaving   *)
(* on the real library and requires each slot's observable tree to be      *)
(* exactly what its own history alone produces (and, right after a parse,  *)
(* what the reader machine computed for that source).                      *)
(***************************************************************************)
EXTENDS Naturals, Sequences, TLC, Json

CONSTANTS NSrc,       \* sources are numbered 1..NSrc
          Forms,      \* ways of feeding a source: "str", "list", "tuple", "gen", "file", "chars", "lines"
          EditKinds,  \* abstract edits: "string", "rename", "append", "delete", "args", "mathname"
          MaxSteps

VARIABLES slot, trace
svars == <<slot, trace>>
Slots == {1, 2}
Empty == [st |-> "empty", src |-> 0, form |-> "", edits |-> <<>>]

Init == slot = [d \in Slots |-> Empty] /\ trace = <<>>
Log(d, a, x) == trace' = Append(trace, [d |-> d, a |-> a, x |-> x])
Parse(d) == \E s \in 1..NSrc : \E f \in Forms : \E k \in {"skip", "noskip"} :      \* k: with / without the skip_envs option
              /\ slot' = [slot EXCEPT ![d] = [st |-> "parsed", src |-> s, form |-> f \o "/" \o k, edits |-> <<>>]]
              /\ Log(d, "parse", <<ToString(s), f, k>>)
Edit(d) == /\ slot[d].st = "parsed" /\ Len(slot[d].edits) < 2
           /\ \E e \in EditKinds :
                /\ slot' = [slot EXCEPT ![d].edits = Append(@, e)]
                /\ Log(d, "edit", <<e>>)
Reparse(d) == /\ slot[d].st = "parsed" /\ slot[d].edits # <<>> /\ ~(\E i \in 1..Len(slot[d].edits) : slot[d].edits[i] = "reparse")
              /\ slot' = [slot EXCEPT ![d].edits = Append(@, "reparse")]
              /\ Log(d, "reparse", <<>>)
Drop(d) == /\ slot[d].st = "parsed"
           /\ slot' = [slot EXCEPT ![d] = Empty]
           /\ Log(d, "drop", <<>>)
Next == Len(trace) < MaxSteps /\ \E d \in Slots : Parse(d) \/ Edit(d) \/ Reparse(d) \/ Drop(d)
Spec == Init /\ [][Next]_svars

Isolation == [][\A d \in Slots : (trace' # trace /\ trace'[Len(trace')].d # d) => slot'[d] = slot[d]]_svars
Dump == (Len(trace) = MaxSteps) => PrintT(ToJson([t |-> trace]))
=============================================================================

------------------------------- MODULE Edits -------------------------------
(***************************************************************************)
(* The reference document model of C05 / C14 / C15: a parsed document is a *)
(* tree of nodes with identities; every edit of the public API is one      *)
(* action on that tree.  Identities: the "pos" field of a node (unique      *)
(* after a fresh parse; fresh material gets ids from nextId upwards).       *)
(*                                                                         *)
(* One behaviour: pick a start source, parse it with the reader machine    *)
(* (phase lex/parse of TexMachine - the machine tree has the same list      *)
(* structure as the real tree, which matters for insertion indices), then  *)
(* apply up to MaxEdits edits.  The history of edits with the model's      *)
(* observables after every step is dumped for the replay on the real tree. *)
(***************************************************************************)
EXTENDS TexMachine, TexContract, Json

CONSTANTS ESources,   \* set of start sources
          MaxEdits,   \* bound on the length of a history
          OpKinds,    \* subset of the operation kinds to explore
          NewNames,   \* names for Rename
          NewStrings, \* strings for SetString / plain-string material
          TextTargets, \* BOOLEAN: text leaves (reached through parent.all) are edit targets too
          RenameItems, \* BOOLEAN: \item may be renamed
          Material    \* set of material lists: each a Seq of [m |-> "str", s |-> Seq(Char)] / [m |-> "node", k |-> snippet number]

VARIABLES doc, nextId, hist, estage
evars == <<doc, nextId, hist, estage>>
allv == <<mvars, evars>>

(***************************************************************************)
(* Fresh material: copies of nodes parsed elsewhere                        *)
(***************************************************************************)
Tx(s, id) == TextOf("str", s, id)
Snippet(k, b) ==   \* b = first fresh id
  CASE k = 1 -> Node("cmd", <<"n">>, "", <<>>, << Node("group", <<>>, "{", <<>>, <<>>, << Tx(<<"q">>, b+2) >>, b+1) >>, <<>>, b)        \* \n{q}
    [] k = 2 -> Node("env", <<"w">>, "", <<>>, <<>>, << Tx(<<"u">>, b+1) >>, b)                                                       \* \begin{w}u\end{w}
    [] k = 3 -> Node("group", <<>>, "{", <<>>, <<>>, << Tx(<<"g">>, b+1) >>, b)                                                         \* {g}
    [] k = 4 -> Node("math", <<>>, "$", <<>>, <<>>, << Tx(<<"m">>, b+1) >>, b)                                                          \* $m$
    [] k = 7 -> Node("cmd", <<"n">>, "", <<>>, << Node("group", <<>>, "{", <<>>, <<>>, << Tx(<<"q">>, b+2) >>, b+1) >>, <<>>, b)        \* \n{q} again, but the real node is copied out of an ARGUMENT of another document
    [] k = 5 -> Node("cmd", <<"a">>, "", <<>>, << Node("group", <<>>, "{", <<>>, <<>>, << Tx(<<"x">>, b+2) >>, b+1) >>, <<>>, b)        \* \a{x}  (a twin of \a{x} in the start documents)
    [] OTHER -> Node("cmd", <<"n">>, "", <<>>, << Node("group", <<>>, "{", <<>>, <<>>,
                       << Node("cmd", <<"q">>, "", <<>>, << Node("group", <<>>, "{", <<>>, <<>>, << Tx(<<"1">>, b+4) >>, b+3) >>, <<>>, b+2) >>, b+1) >>, <<>>, b)   \* \n{\q{1}}
SnippetSize == 5
RECURSIVE Mat(_, _)
Mat(ms, b) == IF ms = <<>> THEN <<>>
              ELSE (IF Head(ms).m = "str" THEN << Tx(Head(ms).s, b) >> ELSE << Snippet(Head(ms).k, b) >>) \o Mat(Tail(ms), b + SnippetSize)

(***************************************************************************)
(* Tree surgery by identity                                                *)
(***************************************************************************)
Null == [k |-> "null"]
RECURSIVE GetSeq(_, _), GetNode(_, _)
GetNode(x, id) == IF x.pos = id THEN x
                  ELSE IF x.k = "text" THEN Null
                  ELSE LET a == GetSeq(x.args, id) IN IF a.k # "null" THEN a ELSE GetSeq(x.body, id)
GetSeq(s, id) == IF s = <<>> THEN Null ELSE LET h == GetNode(Head(s), id) IN IF h.k # "null" THEN h ELSE GetSeq(Tail(s), id)

RECURSIVE SubstSeq(_, _, _), SubstNode(_, _, _)
SubstNode(x, id, repl) == IF x.k = "text" THEN x
                          ELSE [x EXCEPT !.args = [j \in 1..Len(x.args) |-> SubstNode(x.args[j], id, repl)],
                                         !.body = SubstSeq(x.body, id, repl)]
SubstSeq(s, id, repl) == IF s = <<>> THEN <<>>
                         ELSE (IF Head(s).pos = id THEN repl ELSE << SubstNode(Head(s), id, repl) >>) \o SubstSeq(Tail(s), id, repl)
Update(id, new) == SubstSeq(doc, id, << new >>)

InsertAt(l, i, xs) == LET nl == Len(l)
                          k == IF i < 0 THEN (IF nl + i < 0 THEN 0 ELSE nl + i) ELSE (IF i > nl THEN nl ELSE i)
                      IN SubSeq(l, 1, k) \o xs \o SubSeq(l, k+1, nl)


(* path of node id: sequence of steps <<t, j, i>>: t = 0: i-th item of the body; t = 1: i-th item of the body of the j-th argument *)
RECURSIVE PathSeq(_, _, _, _, _), PathNode(_, _), PathArgs(_, _, _)
PathSeq(s, id, t, j, i) == IF i > Len(s) THEN <<>>
                           ELSE IF s[i].pos = id THEN << <<t, j, i>> >>
                           ELSE LET sub == IF s[i].k = "text" THEN <<>> ELSE PathNode(s[i], id) IN
                                IF sub # <<>> THEN << <<t, j, i>> >> \o sub ELSE PathSeq(s, id, t, j, i + 1)
PathArgs(x, id, j) == IF j > Len(x.args) THEN <<>>
                      ELSE LET sub == IF x.args[j].k = "text" THEN <<>> ELSE PathSeq(x.args[j].body, id, 1, j, 1) IN
                           IF sub # <<>> THEN sub ELSE PathArgs(x, id, j + 1)
PathNode(x, id) == LET a == PathArgs(x, id, 1) IN IF a # <<>> THEN a ELSE PathSeq(x.body, id, 0, 0, 1)
PathOf(id) == IF id = 0-1 THEN <<>> ELSE PathSeq(doc, id, 0, 0, 1)

Root == RootNode(doc)
(* nodes that can be reached as TexNode wrappers: everything in bodies and in the bodies of argument groups *)
SupportsContents(x) == x.k \in {"env", "math", "group"} \/ (x.k = "cmd" /\ (x.name = ItemWord \/ x.body # <<>>))
Targets == SelectSeq(Descendants(Root), NotText)
AllTargetIds == {Targets[i].pos : i \in 1..Len(Targets)}
(* a command that holds content (an \item, also after it was renamed) accepts content edits; before the repair recorded *)
(* in known_findings.json (C15, renamed item) a renamed item refused them (former deviation Dev_FrozenItemBody)           *)
FrozenIds == {}
NodeTargetIds == AllTargetIds
(* text leaves are reachable as nodes through parent.all, which works where no argument of the parent holds text *)
AllWorks(p) == \A j \in 1..Len(p.args) : p.args[j].k = "text" \/ \A i \in 1..Len(p.args[j].body) : p.args[j].body[i].k # "text"
TextHosts == << Root >> \o SelectSeq(Targets, LAMBDA x : SupportsContents(x) /\ AllWorks(x))
TextTargetIds == IF TextTargets
                 THEN UNION {{TextHosts[i].body[j].pos : j \in {m \in 1..Len(TextHosts[i].body) : TextHosts[i].body[m].k = "text" /\ TextHosts[i].body[m].kind \notin {"Raw", "str"}}} : i \in 1..Len(TextHosts)}
                 ELSE {}
TargetIds == NodeTargetIds \cup TextTargetIds
ParentIds == {0-1} \cup {Targets[i].pos : i \in {j \in 1..Len(Targets) : SupportsContents(Targets[j])}}
ReplaceHosts == ParentIds \cup {Targets[i].pos : i \in {j \in 1..Len(Targets) : Targets[j].k = "cmd" /\ Targets[j].body = <<>>}}
BodyOf(pid) == IF pid = 0-1 THEN doc ELSE GetSeq(doc, pid).body
WithBody(pid, b) == IF pid = 0-1 THEN b ELSE Update(pid, [GetSeq(doc, pid) EXCEPT !.body = b])
Renamable(x) == x.k \in {"cmd", "env"} /\ (RenameItems \/ x.name # ItemWord)
GroupArgs(x) == \A j \in 1..Len(x.args) : x.args[j].k = "group"
StringCmd(x) == x.k = "cmd" /\ Len(x.args) = 1 /\ x.args[1].k = "group"
(* text-only environment: its (whitespace-filtered) contents are exactly one text; whitespace-only siblings are allowed and are dropped by the assignment *)
StringEnv(x) == x.k \in {"env", "math", "group"} /\ x.args = <<>> /\ Len(Contents(x)) = 1 /\ Contents(x)[1].k = "text"
HasArgs(x) == x.k \in {"cmd", "env"} /\ GroupArgs(x)
FreshGroup(kind, s, id) == Node("group", <<>>, kind, <<>>, <<>>, << Tx(s, id+1) >>, id)

(***************************************************************************)
(* Observables of the model after a step                                   *)
(***************************************************************************)
ObsNames == {<<"a">>, <<"n">>, <<"q">>, <<"w">>, <<"z","z">>, <<"i","t","e","m">>, <<"e">>, <<"k","k","*">>}
ObsNameSeq == << <<"a">>, <<"n">>, <<"q">>, <<"w">>, <<"z","z">>, <<"i","t","e","m">>, <<"e">>, <<"k","k","*">>,
                BeginOf(<<"e">>), BeginOf(<<"z","z">>), EndOf(<<"z","z">>), EndOf(<<"e">>), BeginOf(<<"i","t","e","m","i","z","e">>) >>
ObsOf(d) == LET r == RootNode(d) IN
            [t |-> StrSeq(d),
             cnt |-> [i \in 1..Len(ObsNameSeq) |-> Count(r, ObsNameSeq[i])],
             tv |-> [i \in 1..Len(TextView(r)) |-> TextView(r)[i].s],
             ds |-> [i \in 1..Len(Descendants(r)) |-> Str(Descendants(r)[i])]]

(***************************************************************************)
(* Actions                                                                 *)
(***************************************************************************)
EInit == /\ MInit /\ doc = <<>> /\ nextId = 1000 /\ hist = <<>> /\ estage = "pick"
Pick == /\ estage = "pick" /\ \E s \in ESources : ResetRun(s, 0, {})
        /\ estage' = "parse" /\ UNCHANGED <<doc, nextId, hist>>
Parse == /\ estage = "parse" /\ MNext /\ UNCHANGED evars
Begin == /\ estage = "parse" /\ phase = "done" /\ outcome = "ok"
         /\ doc' = root /\ estage' = "edit" /\ UNCHANGED <<mvars, nextId, hist>>

Step(op, d2, used) == /\ doc' = d2 /\ nextId' = nextId + used
                      /\ hist' = Append(hist, [op |-> op, obs |-> ObsOf(d2)])
                      /\ UNCHANGED <<mvars, estage>>
Op(k, id, pid, i, nm, s, ms) == [k |-> k, id |-> id, pid |-> pid, i |-> i, nm |-> nm, s |-> s, ms |-> ms,
                                 path |-> PathOf(id), ppath |-> PathOf(pid)]
NoMs == <<>>

(* ---- one parametrised step per operation kind (shared by the exploring actions below and by EditsTrace) ---- *)
DeleteS(id) == Step(Op("delete", id, 0-1, 0, <<>>, <<>>, NoMs), SubstSeq(doc, id, <<>>), 0)
ReplaceWithS(id, ms) == Step(Op("replace_with", id, 0-1, 0, <<>>, <<>>, ms), SubstSeq(doc, id, Mat(ms, nextId)), SnippetSize * Len(ms))
ReplaceS(pid, cid, ms) == Step(Op("replace", cid, pid, 0, <<>>, <<>>, ms), SubstSeq(doc, cid, Mat(ms, nextId)), SnippetSize * Len(ms))
RemoveS(pid, cid) == Step(Op("remove", cid, pid, 0, <<>>, <<>>, NoMs), SubstSeq(doc, cid, <<>>), 0)
InsertS(pid, i, ms) == Step(Op("insert", 0-1, pid, i, <<>>, <<>>, ms), WithBody(pid, InsertAt(BodyOf(pid), i, Mat(ms, nextId))), SnippetSize * Len(ms))
AppendS(pid, ms) == Step(Op("append", 0-1, pid, 0, <<>>, <<>>, ms), WithBody(pid, BodyOf(pid) \o Mat(ms, nextId)), SnippetSize * Len(ms))
RenameS(id, nm) == Step(Op("rename", id, 0-1, 0, nm, <<>>, NoMs), Update(id, [GetSeq(doc, id) EXCEPT !.name = nm]), 0)
SetStringS(id, s) == LET x == GetSeq(doc, id) IN
                     Step(Op("set_string", id, 0-1, 0, <<>>, s, NoMs),
                          IF StringCmd(x) THEN Update(id, [x EXCEPT !.args = << [x.args[1] EXCEPT !.body = << Tx(s, nextId) >>] >>])
                          ELSE Update(id, [x EXCEPT !.body = << Tx(s, nextId) >>]), 1)
(* node.copy(): the node and everything below it again, with identities of its own (fresh ids in document order) *)
MaxCopyText == 24
RECURSIVE RenNode(_, _), RenSeq(_, _)
RenNode(x, b) == IF x.k = "text" THEN [n |-> [x EXCEPT !.pos = b], nx |-> b + 1]
                 ELSE LET a == RenSeq(x.args, b + 1)
                          bd == RenSeq(x.body, a.nx) IN
                      [n |-> [x EXCEPT !.pos = b, !.args = a.s, !.body = bd.s], nx |-> bd.nx]
RenSeq(q, b) == IF q = <<>> THEN [s |-> <<>>, nx |-> b]
                ELSE LET h == RenNode(Head(q), b)
                         t == RenSeq(Tail(q), h.nx) IN
                     [s |-> << h.n >> \o t.s, nx |-> t.nx]
CopyAppendS(id, pid) == LET c == RenNode(GetSeq(doc, id), nextId) IN
                        Step(Op("copy_append", id, pid, 0, <<>>, <<>>, NoMs), WithBody(pid, Append(BodyOf(pid), c.n)), c.nx - nextId)
CopyOK(id, pid) == id \in NodeTargetIds /\ pid \in ParentIds /\ Len(Str(GetSeq(doc, id))) <= MaxCopyText
(* argument-list operations: j = index parameter, s = extra parameter (group kind / slice end as a string) *)
ArgsOK(k, id, j, s) ==
  LET x == GetSeq(doc, id)
      na == Len(x.args) IN
  /\ HasArgs(x)
  /\ CASE k = "args_append" -> na < 4 /\ s \in {<<"{">>, <<"[">>, <<"{", "{">>} /\ j = 0
        [] k = "args_set" -> na > 0 /\ j \in 0..(na-1) /\ s \in {<<"{">>, <<"{", "{">>}                       \* args[j] = '{z}' / '{{z}}'
        [] k = "args_delslice" -> na > 1 /\ j \in 0..1 /\ s \in {<<ToString(b)>> : b \in (j+1)..na}          \* del args[j:b]
        [] k = "args_insert" -> na < 4 /\ j \in 0..na /\ s = <<"{">>
        [] k \in {"args_pop", "args_remove", "args_del"} -> na > 0 /\ j \in 0..(na-1) /\ s = <<>>
        [] k = "args_reverse" -> na > 1 /\ j = 0 /\ s = <<>>
        [] k = "args_swap" -> na > 1 /\ j \in 1..(na-1) /\ s = <<>>
        [] k = "args_clear" -> na > 0 /\ j = 0 /\ s = <<>>
        [] k = "args_slice" -> na > 0 /\ j \in 0..1 /\ s \in {<<ToString(b)>> : b \in 1..na}
        [] OTHER -> FALSE
(* the group made from the unparsed string '{z}' / '[z]' / '{{z}}' (the last: ONE brace group whose text is "{z}") *)
NewGroup(s) == IF s = <<"{", "{">> THEN FreshGroup("{", <<"{", "z", "}">>, nextId) ELSE FreshGroup(s[1], <<"z">>, nextId)
ArgsNew(k, id, j, s) ==
  LET x == GetSeq(doc, id)
      na == Len(x.args) IN
  CASE k = "args_append" -> Append(x.args, NewGroup(s))
    [] k = "args_set" -> [x.args EXCEPT ![j+1] = NewGroup(s)]
    [] k = "args_delslice" -> LET b == CHOOSE b \in 1..na : <<ToString(b)>> = s IN SubSeq(x.args, 1, j) \o SubSeq(x.args, b+1, na)
    [] k = "args_insert" -> InsertAt(x.args, j, << FreshGroup("{", <<"z">>, nextId) >>)
    [] k \in {"args_pop", "args_del"} -> SubSeq(x.args, 1, j) \o SubSeq(x.args, j+2, na)
    [] k = "args_remove" ->      \* remove(args[j]): the first argument textually equal to args[j] goes
         LET f == CHOOSE f \in 1..na : Str(x.args[f]) = Str(x.args[j+1]) /\ \A g \in 1..(f-1) : Str(x.args[g]) # Str(x.args[j+1]) IN
         SubSeq(x.args, 1, f-1) \o SubSeq(x.args, f+1, na)
    [] k = "args_reverse" -> [m \in 1..na |-> x.args[na + 1 - m]]
    [] k = "args_swap" -> [m \in 1..na |-> IF m = 1 THEN x.args[j+1] ELSE IF m = j+1 THEN x.args[1] ELSE x.args[m]]       \* args[0], args[j] = args[j], args[0]
    [] k = "args_clear" -> <<>>
    [] OTHER -> LET b == CHOOSE b \in 1..na : <<ToString(b)>> = s IN SubSeq(x.args, j+1, b)                                  \* node.args = node.args[j:b]
ArgsS(k, id, j, s) == Step(Op(k, id, 0-1, j, <<>>, s, NoMs), Update(id, [GetSeq(doc, id) EXCEPT !.args = ArgsNew(k, id, j, s)]),
                           IF k \in {"args_append", "args_insert", "args_set"} THEN 2 ELSE 0)

Delete == "delete" \in OpKinds /\ \E id \in TargetIds : DeleteS(id)
ReplaceWith == "replace_with" \in OpKinds /\ \E id \in TargetIds : \E ms \in Material : ReplaceWithS(id, ms)
(* parent.replace(child, ...) / parent.remove(child): child directly in the parent's body or in one of its argument groups *)
ChildrenOfP(pid) == LET pn == IF pid = 0-1 THEN Root ELSE GetSeq(doc, pid) IN
                    {x.pos : x \in {All(pn)[i] : i \in {j \in 1..Len(All(pn)) : All(pn)[j].k # "text"}}}
BodyChildren(pid) == {BodyOf(pid)[i].pos : i \in {j \in 1..Len(BodyOf(pid)) : BodyOf(pid)[j].k # "text"}}
Replace == "replace" \in OpKinds /\ \E pid \in ReplaceHosts : \E cid \in ChildrenOfP(pid) : \E ms \in Material : ReplaceS(pid, cid, ms)
Remove == "remove" \in OpKinds /\ \E pid \in ReplaceHosts : \E cid \in ChildrenOfP(pid) : RemoveS(pid, cid)     \* like replace: body or argument groups
InsertIdxOK(pid, i, ms) == i \in (0-3)..(Len(BodyOf(pid)) + 1)      \* negative indices as in list.insert; several nodes stay together
Insert == "insert" \in OpKinds /\ \E pid \in ParentIds : \E ms \in Material : \E i \in (0-3)..(Len(BodyOf(pid)) + 1) :
            InsertIdxOK(pid, i, ms) /\ InsertS(pid, i, ms)
AppendOp == "append" \in OpKinds /\ \E pid \in ParentIds : \E ms \in Material : AppendS(pid, ms)
RenameOK(id) == id \in AllTargetIds /\ Renamable(GetSeq(doc, id))
Rename == "rename" \in OpKinds /\ \E id \in AllTargetIds : \E nm \in NewNames : RenameOK(id) /\ RenameS(id, nm)
SetStringOK(id) == id \in NodeTargetIds /\ (StringCmd(GetSeq(doc, id)) \/ StringEnv(GetSeq(doc, id)))
SetString == "set_string" \in OpKinds /\ \E id \in NodeTargetIds : \E s \in NewStrings : SetStringOK(id) /\ SetStringS(id, s)
ArgsOps == {"args_swap", "args_del", "args_append", "args_pop", "args_reverse", "args_slice", "args_insert", "args_remove", "args_clear",
            "args_set", "args_delslice"} \cap OpKinds
ArgParams == {<<"{">>, <<"[">>, <<"{", "{">>, <<>>} \cup {<<ToString(b)>> : b \in 1..4}
ArgsEdit == \E k \in ArgsOps : \E id \in NodeTargetIds : \E j \in 0..4 : \E s \in ArgParams : ArgsOK(k, id, j, s) /\ ArgsS(k, id, j, s)

CopyAppend == "copy_append" \in OpKinds /\ \E id \in NodeTargetIds : \E pid \in ParentIds : CopyOK(id, pid) /\ CopyAppendS(id, pid)
Edit == /\ estage = "edit" /\ Len(hist) < MaxEdits
        /\ (CopyAppend \/ Delete \/ ReplaceWith \/ Replace \/ Remove \/ Insert \/ AppendOp \/ Rename \/ SetString \/ ArgsEdit)
ENext == Pick \/ Parse \/ Begin \/ Edit
ESpec == EInit /\ [][ENext]_allv

(***************************************************************************)
(* The model itself is local (C05 / C14 as theorems of the reference       *)
(* model): the text after a step is the text before with exactly the       *)
(* target's span replaced.                                                 *)
(***************************************************************************)
RECURSIVE OffSeq(_, _, _), OffNode(_, _, _)
(* offset of node id in the serialisation of s starting at off, or -1 *)
OffNode(x, id, off) ==
  IF x.pos = id THEN off
  ELSE IF x.k = "text" THEN 0-1
  ELSE LET hl == CASE x.k = "cmd" -> 1 + Len(x.name) [] x.k = "env" -> Len(BeginOf(x.name))
                   [] x.k = "math" -> Len(MathBegin(x.kind)) [] OTHER -> 1
           a == OffSeq(x.args, id, off + hl) IN
       IF a >= 0 THEN a ELSE OffSeq(x.body, id, off + hl + Len(StrSeq(x.args)))
OffSeq(s, id, off) == IF s = <<>> THEN 0-1
                      ELSE LET h == OffNode(Head(s), id, off) IN IF h >= 0 THEN h ELSE OffSeq(Tail(s), id, off + Len(Str(Head(s))))
Splice(t, off, len, new) == SubSeq(t, 1, off) \o new \o SubSeq(t, off + len + 1, Len(t))
LastOp == hist'[Len(hist')].op
SpliceLocal ==
  [][(estage = "edit" /\ estage' = "edit" /\ hist' # hist /\ LastOp.k \in {"delete", "replace_with", "remove", "replace"}) =>
       LET id == LastOp.id
           off == OffSeq(doc, id, 0)
           x == GetSeq(doc, id)
           new == IF LastOp.k \in {"delete", "remove"} THEN <<>> ELSE StrSeq(Mat(LastOp.ms, nextId)) IN
       StrSeq(doc') = Splice(StrSeq(doc), off, Len(Str(x)), new)]_allv
RenameLocal ==
  [][(estage = "edit" /\ estage' = "edit" /\ hist' # hist /\ LastOp.k = "rename") =>
       LET x == GetSeq(doc, LastOp.id)
           y == [x EXCEPT !.name = LastOp.nm]
           off == OffSeq(doc, LastOp.id, 0) IN
       StrSeq(doc') = Splice(StrSeq(doc), off, Len(Str(x)), Str(y))]_allv
IdsUnique == LET ns == NodesSeq(doc) IN \A i \in 1..Len(ns) : \A j \in 1..Len(ns) : (i # j) => ns[i].pos # ns[j].pos

EDump == (estage = "edit" /\ Len(hist) = MaxEdits) => PrintT(ToJson([i |-> input, h |-> hist]))
=============================================================================

---------------------------- MODULE StringsTrace ----------------------------
(***************************************************************************)
(* Trace validation for the parse experiments (code -> spec).              *)
(*                                                                         *)
(* obs.ndjson holds one observation per line, recorded from the real code: *)
(*   [i, A |-> [o, out, flat, abs], B |-> .., C |-> .., toks]              *)
(* For each observation TLC runs the reference machine on the same source  *)
(* (it supplies the side conditions SC8 / SC16 and the expected values),   *)
(* evaluates every contract clause on the *recorded* values and prints a   *)
(* total verdict: the set of failing clauses and the set of observables on *)
(* which code and machine differ (drift).                                  *)
(***************************************************************************)
EXTENDS Strings

VARIABLE tid
CONSTANT Light     \* TRUE: do not run the reference machine (only clauses that need no side condition are meaningful: C06, C07a, C19)
Obs == ndJsonDeserialize("obs.ndjson")

TInit == Init /\ scope = 0 /\ tid = 0
TPick == /\ run = "gen" /\ scope = 0 /\ tid = 0
         /\ \E k \in 1..Len(Obs) :
              /\ tid' = k
              /\ IF Light THEN /\ run' = "end" /\ src0' = Obs[k].i
                              /\ UNCHANGED <<mvars, scope, nwords, resA, resB, devs>>
                 ELSE StartA(Obs[k].i)
TNext == TPick \/ ((StepM \/ NextRun) /\ UNCHANGED tid)
TSpec == TInit /\ [][TNext]_<<vars, tid>>

O == Obs[tid]
Diag(o) == o \in Diagnostics
ObsFailing ==
  {c \in {"C06", "C07a", "C07c", "C08", "C16", "C19"} :
     CASE c = "C06" -> ~(Diag(O.A.o) /\ Diag(O.B.o) /\ (O.A.o = "ok" => Diag(O.C.o)))
       [] c = "C07a" -> ~(O.A.o = "ok" => (O.B.o = "ok" /\ O.B.flat = O.A.flat /\ O.B.out = O.A.out))
       [] c = "C07c" -> ~((O.B.o = "ok" /\ SC8) => OnlyClosersInserted(src0, O.B.out))
       [] c = "C08" -> ~((O.A.o = "ok" /\ SC8) => Conserves(src0, O.A.out))
       [] c = "C16" -> ~((O.A.o = "ok" /\ SC16) => (O.C.o = "ok" /\ O.C.out = O.A.out /\ O.C.abs = O.A.abs))
       [] OTHER -> ~(O.tokso = "ok" /\ TokensPartition(src0, O.tokt))}
ObsDrift ==
  IF Light THEN {} ELSE
  {d \in {"A.o", "A.out", "A.flat", "B.o", "B.out", "B.flat", "C.o", "C.out", "toks"} :
     CASE d = "A.o" -> O.A.o # resA.o
       [] d = "A.out" -> O.A.o = "ok" /\ resA.o = "ok" /\ O.A.out # resA.out
       [] d = "A.flat" -> O.A.o = "ok" /\ resA.o = "ok" /\ O.A.flat # FlatSeq(resA.tree)
       [] d = "B.o" -> O.B.o # resB.o
       [] d = "B.out" -> O.B.o = "ok" /\ resB.o = "ok" /\ O.B.out # resB.out
       [] d = "B.flat" -> O.B.o = "ok" /\ resB.o = "ok" /\ O.B.flat # FlatSeq(resB.tree)
       [] d = "C.o" -> O.A.o = "ok" /\ resA.o = "ok" /\ O.A.out = resA.out /\ O.C.o # ResC.o
       [] d = "C.out" -> O.A.o = "ok" /\ resA.o = "ok" /\ O.A.out = resA.out /\ O.C.o = "ok" /\ ResC.o = "ok" /\ O.C.out # ResC.out
       [] OTHER -> O.toks # FlatT(resA.toks)}
Verdict == Final => PrintT(ToJson([tid |-> tid, failing |-> ObsFailing, drift |-> ObsDrift, sc8 |-> SC8, sc16 |-> SC16]))
=============================================================================

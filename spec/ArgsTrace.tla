------------------------------ MODULE ArgsTrace ------------------------------
(***************************************************************************)
(* Trace validation for data.TexArgs: each line of traces.ndjson is one    *)
(* recorded execution  [h |-> << [op, r, texts, ids, str, owner], ... >>]  *)
(* on a list owned by the command \c.  Every event must be explained by    *)
(* the list model: same result, same list (texts and identities) after the *)
(* call, and the recorded serialisations equal the concatenation.          *)
(***************************************************************************)
EXTENDS Args

Traces == ndJsonDeserialize("traces.ndjson")
VARIABLES tid, l, bad
tvars == <<avars, tid, l, bad>>

TInit == /\ tid \in 1..Len(Traces) /\ lst = <<>> /\ last = [op |-> NoOp, r |-> <<>>] /\ hist = <<>> /\ l = 1 /\ bad = "ok"
Ev == Traces[tid].h[l]
(* identities of freshly coerced strings are unknown to the model: "0" matches anything *)
IdsMatch(m, o) == Len(m) = Len(o) /\ \A k \in 1..Len(m) : m[k] = "0" \/ m[k] = o[k]
TStep == /\ bad = "ok" /\ l <= Len(Traces[tid].h)
         /\ LET op == Ev.op
                res == Apply(op, lst) IN
            /\ bad' = IF res.r # Ev.r THEN "result"
                      ELSE IF Texts(res.l) # Ev.texts THEN "list"
                      ELSE IF ~IdsMatch(Ids(res.l), Ev.ids) THEN "identity"
                      ELSE IF Ev.str # Concat(Ev.texts) THEN "str"
                      ELSE IF Ev.owner # <<"\\", "c">> \o Concat(Ev.texts) THEN "owner"
                      ELSE "ok"
            /\ lst' = res.l /\ last' = [op |-> op, r |-> res.r] /\ l' = l + 1
         /\ UNCHANGED <<hist, tid>>
TSpec == TInit /\ [][TStep]_tvars
Done == bad # "ok" \/ l > Len(Traces[tid].h)
Verdict == Done => PrintT(ToJson([tid |-> tid, verdict |-> bad, at |-> l - 1]))
=============================================================================

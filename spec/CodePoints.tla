------------------------------ MODULE CodePoints ------------------------------
(***************************************************************************)
(* C19, first sentence: every Unicode code point gets exactly one category *)
(* and its own index.  The real categorizer is run over all 1 114 112 code *)
(* points; what it did is recorded run-length encoded in ranges.ndjson:    *)
(*   [a, b, cat, ok]  - code points a..b each produced exactly one token   *)
(*                      of category cat whose text is the character and    *)
(*                      whose position is its index (ok = TRUE)            *)
(* TLC checks that the ranges tile 0..1114111 and agree with the category  *)
(* table of the specification for every single code point.                 *)
(***************************************************************************)
EXTENDS Naturals, Sequences, Json, TLC

Ranges == ndJsonDeserialize("ranges.ndjson")
MaxCode == 1114111

CatOfCode(c) ==
  CASE c = 92 -> "Escape" [] c = 123 -> "GroupBegin" [] c = 125 -> "GroupEnd" [] c = 36 -> "MathSwitch"
    [] c = 38 -> "Alignment" [] c \in {10, 13} -> "EndOfLine" [] c = 35 -> "Macro" [] c = 94 -> "Superscript"
    [] c = 95 -> "Subscript" [] c = 0 -> "Ignored" [] c \in {32, 9} -> "Spacer"
    [] (c >= 65 /\ c <= 90) \/ (c >= 97 /\ c <= 122) -> "Letter"
    [] c = 126 -> "Active" [] c = 37 -> "Comment" [] c = 127 -> "Invalid"
    [] c = 91 -> "BracketBegin" [] c = 93 -> "BracketEnd" [] c = 40 -> "ParenBegin" [] c = 41 -> "ParenEnd"
    [] OTHER -> "Other"

Tiles == /\ Len(Ranges) > 0 /\ Ranges[1].a = 0 /\ Ranges[Len(Ranges)].b = MaxCode
         /\ \A i \in 1..Len(Ranges) : Ranges[i].a <= Ranges[i].b /\ Ranges[i].ok
         /\ \A i \in 1..(Len(Ranges)-1) : Ranges[i+1].a = Ranges[i].b + 1
BadRanges == {i \in 1..Len(Ranges) : \E c \in Ranges[i].a..Ranges[i].b : CatOfCode(c) # Ranges[i].cat}

VARIABLE done
Init == done = FALSE
Next == done = FALSE /\ done' = TRUE
Spec == Init /\ [][Next]_done
Verdict == done => PrintT(ToJson([tiles |-> Tiles, bad |-> BadRanges, n |-> Len(Ranges)]))
=============================================================================

------------------------------ MODULE TexChars ------------------------------
(***************************************************************************)
(* Characters, category codes and the fixed tables of TexSoup              *)
(* (category.py CATEGORY_CODES; tokens.py SKIP_ENV_NAMES, MATH_ENV_NAMES,  *)
(* SPECIAL_COMMANDS, BRACKETS_DELIMITERS, SIZE_PREFIX; reader.py           *)
(* SIGNATURES).                                                            *)
(*                                                                         *)
(* Text is Seq(Char); a Char is a string atom: the character itself for    *)
(* printable ASCII, "\n" "\t" "\r", and the named atoms "NUL" "DEL" "VT"    *)
(* "FF" "U+XXXX" for what cannot be written in a TLA+ string literal.      *)
(***************************************************************************)
EXTENDS Naturals, Integers, Sequences, FiniteSets

Letters == {"a","b","c","d","e","f","g","h","i","j","k","l","m","n","o","p","q","r","s","t","u","v","w","x","y","z",
            "A","B","C","D","E","F","G","H","I","J","K","L","M","N","O","P","Q","R","S","T","U","V","W","X","Y","Z"}

(* Category code of a character.  "Misc" stands for the five codes the     *)
(* tokenizer treats alike (Alignment & , Macro # , Superscript ^ ,         *)
(* Subscript _ , Active ~).  Everything not listed is Other - this         *)
(* includes all non-ASCII letters, digits, punctuation, VT and FF.         *)
Cat(c) == CASE c = "\\" -> "Esc" [] c = "{" -> "GB" [] c = "}" -> "GE" [] c = "$" -> "MS"
            [] c \in {"&","#","^","_","~"} -> "Misc"
            [] c \in {"\n","\r"} -> "EOL" [] c \in {"NUL","DEL"} -> "Ign"
            [] c \in {" ","\t"} -> "Sp" [] c \in Letters -> "Let" [] c = "%" -> "Com"
            [] c = "[" -> "BB" [] c = "]" -> "BE" [] c = "(" -> "PB" [] c = ")" -> "PE"
            [] OTHER -> "Oth"

(* The precise category code names of category.py, for the code-point map  *)
(* of C19 (CatName refines Cat).                                           *)
CatName(c) == CASE c = "\\" -> "Escape" [] c = "{" -> "GroupBegin" [] c = "}" -> "GroupEnd" [] c = "$" -> "MathSwitch"
            [] c = "&" -> "Alignment" [] c = "#" -> "Macro" [] c = "^" -> "Superscript" [] c = "_" -> "Subscript"
            [] c = "~" -> "Active" [] c \in {"\n","\r"} -> "EndOfLine" [] c = "NUL" -> "Ignored" [] c = "DEL" -> "Invalid"
            [] c \in {" ","\t"} -> "Spacer" [] c \in Letters -> "Letter" [] c = "%" -> "Comment"
            [] c = "[" -> "BracketBegin" [] c = "]" -> "BracketEnd" [] c = "(" -> "ParenBegin" [] c = ")" -> "ParenEnd"
            [] OTHER -> "Other"

W(s) == s   \* documentation marker: s is a word (Seq(Char))

SkipEnvNames == {<<"l","s","t","l","i","s","t","i","n","g">>, <<"v","e","r","b","a","t","i","m">>,
                 <<"v","e","r","b","a","t","i","m","t","a","b">>, <<"V","e","r","b","a","t","i","m">>,
                 <<"l","i","s","t","i","n","g">>}
MathEnvNames == {<<"a","l","i","g","n">>, <<"a","l","i","g","n","*">>, <<"a","l","i","g","n","a","t">>,
   <<"a","r","r","a","y">>, <<"d","i","s","p","l","a","y","m","a","t","h">>, <<"e","q","n","a","r","r","a","y">>,
   <<"e","q","n","a","r","r","a","y","*">>, <<"e","q","u","a","t","i","o","n">>, <<"e","q","u","a","t","i","o","n","*">>,
   <<"f","l","a","l","i","g","n">>, <<"f","l","a","l","i","g","n","*">>, <<"g","a","t","h","e","r">>,
   <<"g","a","t","h","e","r","*">>, <<"m","a","t","h">>, <<"m","u","l","t","l","i","n","e">>,
   <<"m","u","l","t","l","i","n","e","*">>, <<"s","p","l","i","t">>}
Special == {<<"n","e","w","c","o","m","m","a","n","d">>, <<"r","e","n","e","w","c","o","m","m","a","n","d">>,
            <<"p","r","o","v","i","d","e","c","o","m","m","a","n","d">>,
            <<"n","e","w","c","o","m","m","a","n","d","*">>, <<"r","e","n","e","w","c","o","m","m","a","n","d","*">>,
            <<"p","r","o","v","i","d","e","c","o","m","m","a","n","d","*">>,
            <<"n","e","w","e","n","v","i","r","o","n","m","e","n","t">>, <<"r","e","n","e","w","e","n","v","i","r","o","n","m","e","n","t">>,
            <<"n","e","w","e","n","v","i","r","o","n","m","e","n","t","*">>, <<"r","e","n","e","w","e","n","v","i","r","o","n","m","e","n","t","*">>}
SizePrefix == {<<"l","e","f","t">>, <<"r","i","g","h","t">>, <<"b","i","g">>, <<"B","i","g">>, <<"b","i","g","g">>, <<"B","i","g","g">>}
Delims == {<<"(">>, <<")">>, <<"<">>, <<">">>, <<"[">>, <<"]">>, <<"{">>, <<"}">>, <<"\\","{">>, <<"\\","}">>, <<".">>, <<"|">>,
           <<"\\","l","a","n","g","l","e">>, <<"\\","r","a","n","g","l","e">>, <<"\\","l","f","l","o","o","r">>,
           <<"\\","r","f","l","o","o","r">>, <<"\\","l","c","e","i","l">>, <<"\\","r","c","e","i","l">>,
           <<"\\","u","l","c","o","r","n","e","r">>, <<"\\","u","r","c","o","r","n","e","r">>,
           <<"\\","l","b","r","a","c","k">>, <<"\\","r","b","r","a","c","k">>}
Punct == {p \o d : p \in SizePrefix, d \in Delims}
MaxPunctLen == 14

(* SIGNATURES: name -> <<n_required, n_optional>>; <<-1,-1>> = "all".     *)
SigNames == {<<"d","e","f">>, <<"t","e","x","t","b","f">>, <<"s","e","c","t","i","o","n">>, <<"l","a","b","e","l">>,
             <<"c","a","p">>, <<"c","u","p">>, <<"i","n">>, <<"n","o","t","i","n">>,
             <<"i","n","f","t","y">>, <<"n","o","i","n","d","e","n","t">>}
Sig(name) == CASE name = <<"d","e","f">> -> <<2,0>>
               [] name = <<"t","e","x","t","b","f">> -> <<1,0>>
               [] name = <<"s","e","c","t","i","o","n">> -> <<1,1>>
               [] name = <<"l","a","b","e","l">> -> <<1,0>>
               [] name \in {<<"c","a","p">>, <<"c","u","p">>, <<"i","n">>, <<"n","o","t","i","n">>,
                            <<"i","n","f","t","y">>, <<"n","o","i","n","d","e","n","t">>} -> <<0,0>>
               [] OTHER -> <<0-1,0-1>>

IsPrefixOf(a, b) == Len(a) <= Len(b) /\ SubSeq(b, 1, Len(a)) = a

(* The sizing commands are prefix-free: at most one of them matches at any *)
(* position, so iterating them in set (hash) order cannot change the       *)
(* result (C17).                                                           *)
PunctPrefixFree == \A p \in Punct : \A q \in Punct : (p # q) => ~IsPrefixOf(p, q)
=============================================================================

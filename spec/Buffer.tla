-------------------------------- MODULE Buffer --------------------------------
(***************************************************************************)
(* utils.Buffer as a cursor over a sequence (C20).                         *)
(*                                                                         *)
(* Reference model = the property's own words: a plain list with an        *)
(* integer index.  Items are non-empty strings (Seq(Char)); a string-backed *)
(* buffer has one-character items, a token-backed buffer has the token     *)
(* texts; results that span several items are their concatenation.         *)
(*                                                                         *)
(* Apply(op, s, i) is the single definition of every operation; it is used *)
(* by the exploring spec (Next), by the long random walks and by the trace *)
(* spec (BufferTrace) that validates recorded executions of the real class.*)
(***************************************************************************)
EXTENDS Naturals, Integers, Sequences, FiniteSets, TLC, Json

CONSTANTS Seqs,      \* set of underlying sequences (each a Seq of items, item = Seq(Char))
          Ops,       \* set of operations [k, a, b, s]
          MaxHist    \* bound on the recorded history (walk length)

VARIABLES seq, i, prev, last, hist
bvars == <<seq, i, prev, last, hist>>

RECURSIVE Concat(_)
Concat(ss) == IF ss = <<>> THEN <<>> ELSE Head(ss) \o Concat(Tail(ss))
Clip(s, a, b) == SubSeq(s, (IF a < 0 THEN 0 ELSE a) + 1, IF b > Len(s) THEN Len(s) ELSE b)   \* python s[a:b] for 0 <= a
IsPrefix(p, t) == Len(p) <= Len(t) /\ SubSeq(t, 1, Len(p)) = p
IsSuffix(p, t) == Len(p) <= Len(t) /\ SubSeq(t, Len(t) - Len(p) + 1, Len(t)) = p
RECURSIVE FirstAt(_, _, _)
FirstAt(s, k, target) == IF k >= Len(s) THEN Len(s) ELSE IF s[k+1] = target THEN k ELSE FirstAt(s, k+1, target)
RECURSIVE FirstStart(_, _, _)
FirstStart(s, k, str) == IF k >= Len(s) THEN Len(s)
                         ELSE IF IsPrefix(str, Concat(Clip(s, k, k + Len(str)))) THEN k ELSE FirstStart(s, k+1, str)

Ret(v) == <<"ret">> \o v
Exc(e) == <<"exc", e>>
NoneR == <<"none">>
BoolR(b) == <<"bool", IF b THEN "T" ELSE "F">>
IntR(k) == <<"int", ToString(k)>>

(* enabledness = the property's "in-range" moves and well-defined reads *)
InRange(op, s, c) ==
  CASE op.k = "fwd" -> op.a >= 0 /\ c + op.a <= Len(s)
    [] op.k = "back" -> op.a >= 0 /\ c - op.a >= 0
    [] op.k = "peekr" -> op.a <= op.b
    [] op.k = "has" -> op.a >= 1
    [] op.k = "slice" -> op.a >= 0 /\ op.a <= op.b
    [] op.k = "tail" -> op.a >= 0
    [] op.k = "index" -> op.a >= 0
    [] op.k = "head" -> op.a >= 0
    [] OTHER -> TRUE

(* [c |-> new cursor, r |-> result] *)
Apply(op, s, c) ==
  CASE op.k = "next" -> IF c < Len(s) THEN [c |-> c + 1, r |-> Ret(s[c+1])] ELSE [c |-> c, r |-> Exc("StopIteration")]
    [] op.k = "fwd" -> [c |-> c + op.a, r |-> Ret(Concat(Clip(s, c, c + op.a)))]
    [] op.k = "back" -> [c |-> c - op.a, r |-> Ret(Concat(Clip(s, c - op.a, c)))]
    \* looking before the start is like looking past the end: None / a shorter result (clamped), never an item from the other end
    [] op.k = "peek" -> [c |-> c, r |-> IF c + op.a >= 0 /\ c + op.a < Len(s) THEN Ret(s[c + op.a + 1]) ELSE NoneR]
    [] op.k = "peekr" -> [c |-> c, r |-> Ret(Concat(Clip(s, c + op.a, c + op.b)))]
    [] op.k = "has" -> [c |-> c, r |-> BoolR(c + op.a - 1 < Len(s))]
    [] op.k = "slice" -> [c |-> c, r |-> Ret(Concat(Clip(s, op.a, op.b)))]
    [] op.k = "tail" -> [c |-> c, r |-> Ret(Concat(Clip(s, op.a, Len(s))))]
    [] op.k = "index" -> [c |-> c, r |-> IF op.a < Len(s) THEN Ret(s[op.a + 1]) ELSE Exc("IndexError")]
    [] op.k = "head" -> [c |-> c, r |-> Ret(Concat(Clip(s, 0, op.a)))]                   \* buf[:a]: from the beginning of the data, not from the cursor
    [] op.k = "sw" -> [c |-> c, r |-> BoolR(IsPrefix(op.s, Concat(Clip(s, c, c + Len(op.s)))))]
    [] op.k = "ew" -> [c |-> c, r |-> BoolR(IsSuffix(op.s, Concat(Clip(s, c - Len(op.s), c))))]
    [] op.k = "fu" -> LET e == FirstAt(s, c, op.s) IN [c |-> e, r |-> Ret(Concat(Clip(s, c, e)))]
    [] op.k = "fus" -> LET e == FirstStart(s, c, op.s) IN [c |-> e, r |-> Ret(Concat(Clip(s, c, e)))]
    [] op.k = "nfu" -> LET e == FirstAt(s, c, op.s) IN [c |-> c, r |-> IntR(e - c)]
    [] OTHER -> [c |-> c, r |-> Exc("unknown-op")]

NoOp == [k |-> "init", a |-> 0, b |-> 0, s |-> <<>>]
Init == /\ seq \in Seqs /\ i = 0 /\ prev = NoOp /\ last = [op |-> NoOp, r |-> <<>>, c |-> 0] /\ hist = <<>>
Do(op) == /\ InRange(op, seq, i)
          /\ LET res == Apply(op, seq, i) IN
             /\ i' = res.c
             /\ last' = [op |-> op, r |-> res.r, c |-> res.c]
             /\ hist' = Append(hist, [op |-> op, r |-> res.r, c |-> res.c])
          /\ prev' = last.op
          /\ UNCHANGED seq
Next == Len(hist) < MaxHist /\ \E op \in Ops : Do(op)
Spec == Init /\ [][Next]_bvars

View == <<seq, i, prev.k, last>>    \* one witness path per (state, kind of the previous op, op)
View1 == <<seq, i, last>>           \* one witness path per (state, op)

(* ---- the property, as invariants / action properties of the model ---- *)
Reads == {"peek", "peekr", "has", "slice", "tail", "head", "index", "sw", "ew", "nfu"}
CursorInRange == 0 <= i /\ i <= Len(seq)
ReadsDoNotMove == [][last'.op.k \in Reads => i' = i]_bvars
ExhaustionIsReported ==      \* past the end: StopIteration / None / shorter result, never another failure
  (last.op.k \in {"next", "peek", "peekr", "fu", "fus", "nfu", "has", "sw"} /\ last.r[1] = "exc") => last.r[2] = "StopIteration"
MovesAreExact == [][(last'.op.k = "fwd" => i' = i + last'.op.a) /\ (last'.op.k = "back" => i' = i - last'.op.a)]_bvars

Dump == (hist # <<>>) => PrintT(ToJson([s |-> seq, h |-> hist]))
DumpEnd == (Len(hist) = MaxHist) => PrintT(ToJson([s |-> seq, h |-> hist]))
=============================================================================

------------------------------- MODULE LineCol -------------------------------
(***************************************************************************)
(* The line / column map of C13 (utils.CharToLineOffset):                  *)
(* the character at offset k stands on line = number of line breaks before *)
(* k, at column = distance from the start of that line.                    *)
(* All strings over {letter, LF} up to MaxLen are enumerated.              *)
(***************************************************************************)
EXTENDS Naturals, Sequences, TLC, Json

CONSTANTS LChars, MaxLen
VARIABLE str
LInit == str = <<>>
LNext == Len(str) < MaxLen /\ \E c \in LChars : str' = Append(str, c)
LSpec == LInit /\ [][LNext]_str

RECURSIVE CountLF(_, _)
CountLF(s, k) == IF k = 0 THEN 0 ELSE (IF s[k] = "\n" THEN 1 ELSE 0) + CountLF(s, k-1)     \* LFs among the first k chars
RECURSIVE LineStart(_, _)
LineStart(s, k) == IF k = 0 THEN 0 ELSE IF s[k] = "\n" THEN k ELSE LineStart(s, k-1)       \* offset of the start of the line of offset k
LineOf(s, k) == CountLF(s, k)                 \* k = 0-based offset
ColOf(s, k) == k - LineStart(s, k)
Table(s) == [k \in 1..Len(s) |-> <<LineOf(s, k-1), ColOf(s, k-1)>>]

(* the map is well defined: walking the string and counting gives the same answer *)
Consistent == \A k \in 1..Len(str) :
                 /\ (k > 1 /\ str[k-1] # "\n" => Table(str)[k] = <<Table(str)[k-1][1], Table(str)[k-1][2] + 1>>)
                 /\ (k > 1 /\ str[k-1] = "\n" => Table(str)[k] = <<Table(str)[k-1][1] + 1, 0>>)
                 /\ (k = 1 => Table(str)[k] = <<0, 0>>)
LDump == PrintT(ToJson([s |-> str, lc |-> Table(str)]))
=============================================================================

----------------------------- MODULE EditsTrace -----------------------------
(***************************************************************************)
(* Trace validation for edit histories (code -> spec): each line of        *)
(* traces.ndjson is one history recorded from the real tree                *)
(*   [i |-> source, h |-> << [op, t, cnt, tv] >>]                          *)
(* with targets chosen by the Python driver from the real tree's views.    *)
(* Every event must be an enabled edit of the reference model with the     *)
(* same operation record (kind, paths, index, material ...), and the       *)
(* model's observables after the step must equal the recorded ones.        *)
(***************************************************************************)
EXTENDS Edits

Traces == ndJsonDeserialize("traces.ndjson")
VARIABLES tid, l, bad
tvars == <<allv, tid, l, bad>>

TInit == /\ MInit /\ doc = <<>> /\ nextId = 1000 /\ hist = <<>> /\ estage = "pick" /\ tid = 0 /\ l = 1 /\ bad = "ok"
TPick == /\ estage = "pick" /\ tid = 0 /\ \E k \in 1..Len(Traces) : ResetRun(Traces[k].i, 0, {}) /\ tid' = k
         /\ estage' = "parse" /\ UNCHANGED <<doc, nextId, hist, l, bad>>
Ev == Traces[tid].h[l]
(* resolve the recorded paths to identities of the model's tree: IdAt(<<>>) = the root (-1); 0-2 = no such node *)
RECURSIVE IdAtSeq(_, _)
IdAtSeq(items, path) ==
  IF path = <<>> THEN 0-2
  ELSE LET st == path[1] IN
       IF st[3] < 1 \/ st[3] > Len(items) THEN 0-2
       ELSE LET x == items[st[3]] IN
            IF Len(path) = 1 THEN x.pos
            ELSE IF x.k = "text" THEN 0-2
            ELSE LET nxt == path[2] IN
                 IF nxt[1] = 0 THEN IdAtSeq(x.body, Tail(path))
                 ELSE IF nxt[2] < 1 \/ nxt[2] > Len(x.args) \/ x.args[nxt[2]].k = "text" THEN 0-2
                 ELSE IdAtSeq(x.args[nxt[2]].body, Tail(path))
(* the first step of a path is always a body step of the root *)
IdAt(path) == IF path = <<>> THEN 0-1 ELSE IdAtSeq(doc, path)
(* the recorded edit, as the model's parametrised step (with its enabling condition) *)
Take(op) ==
  LET id == IdAt(op.path)
      pid == IdAt(op.ppath) IN
  CASE op.k = "delete" -> id \in TargetIds /\ DeleteS(id)
    [] op.k = "replace_with" -> id \in TargetIds /\ op.ms \in Material /\ ReplaceWithS(id, op.ms)
    [] op.k = "replace" -> pid \in ReplaceHosts /\ id \in ChildrenOfP(pid) /\ op.ms \in Material /\ ReplaceS(pid, id, op.ms)
    [] op.k = "remove" -> pid \in ReplaceHosts /\ id \in ChildrenOfP(pid) /\ RemoveS(pid, id)
    [] op.k = "insert" -> pid \in ParentIds /\ op.ms \in Material /\ InsertIdxOK(pid, op.i, op.ms) /\ InsertS(pid, op.i, op.ms)
    [] op.k = "append" -> pid \in ParentIds /\ op.ms \in Material /\ AppendS(pid, op.ms)
    [] op.k = "rename" -> RenameOK(id) /\ op.nm \in NewNames /\ RenameS(id, op.nm)
    [] op.k = "copy_append" -> CopyOK(id, pid) /\ CopyAppendS(id, pid)
    [] op.k = "set_string" -> SetStringOK(id) /\ op.s \in NewStrings /\ SetStringS(id, op.s)
    [] OTHER -> id \in NodeTargetIds /\ op.k \in ArgsOps /\ ArgsOK(op.k, id, op.i, op.s) /\ ArgsS(op.k, id, op.i, op.s)
Matching == estage = "edit" /\ Take(Ev.op)
(* one trace step: the model takes the recorded edit; the verdict records the first mismatching observable *)
TStep == /\ estage = "edit" /\ bad = "ok" /\ l <= Len(Traces[tid].h)
         /\ IF ENABLED Matching
            THEN /\ Matching
                 /\ LET o == hist'[Len(hist')].obs IN
                    bad' = IF o.t # Ev.t THEN "text" ELSE IF o.cnt # Ev.cnt THEN "search" ELSE IF o.tv # Ev.tv THEN "textview"
                           ELSE IF o.ds # Ev.ds THEN "descendants" ELSE "ok"
            ELSE /\ bad' = "not-enabled" /\ UNCHANGED <<mvars, evars>>
         /\ l' = l + 1 /\ UNCHANGED tid
TNext == TPick \/ ((Parse \/ Begin) /\ UNCHANGED <<tid, l, bad>>) \/ TStep
TSpec == TInit /\ [][TNext]_tvars
TDone == (estage = "edit" /\ (bad # "ok" \/ l > Len(Traces[tid].h))) \/ (estage = "parse" /\ phase = "done" /\ outcome # "ok")
Verdict == TDone => PrintT(ToJson([tid |-> tid, verdict |-> IF estage = "parse" THEN "parse" ELSE bad, at |-> l - 1]))
=============================================================================

----------------------------- MODULE EditsTrace -----------------------------
(***************************************************************************)
(* Trace validation for edit histories (code -> spec): each line of        *)
(* traces.ndjson is one history recorded from the real tree                *)
(*   [i |-> source, h |-> << [op, t, cnt, tv] >>]                          *)
(* with targets chosen by the Python driver from the real tree's views.    *)
(* Every event must be an enabled edit of the reference model with the     *)
(* same operation record (kind, paths, index, material ...), and the       *)
(* model's observables after the step must equal the recorded ones.        *)
(***************************************************************************)
EXTENDS Edits

Traces == ndJsonDeserialize("traces.ndjson")
VARIABLES tid, l, bad
tvars == <<allv, tid, l, bad>>

TInit == /\ MInit /\ doc = <<>> /\ nextId = 1000 /\ hist = <<>> /\ estage = "pick" /\ tid = 0 /\ l = 1 /\ bad = "ok"
TPick == /\ estage = "pick" /\ tid = 0 /\ \E k \in 1..Len(Traces) : ResetRun(Traces[k].i, 0, {}) /\ tid' = k
         /\ estage' = "parse" /\ UNCHANGED <<doc, nextId, hist, l, bad>>
Ev == Traces[tid].h[l]
SameOp(a, b) == /\ a.k = b.k /\ a.path = b.path /\ a.ppath = b.ppath /\ a.i = b.i /\ a.nm = b.nm /\ a.s = b.s /\ a.ms = b.ms
Matching == /\ Edit /\ SameOp(LastOp, Ev.op)
(* one trace step: the model takes the recorded edit; the verdict records the first mismatching observable *)
TStep == /\ estage = "edit" /\ bad = "ok" /\ l <= Len(Traces[tid].h)
         /\ IF ENABLED Matching
            THEN /\ Matching
                 /\ LET o == hist'[Len(hist')].obs IN
                    bad' = IF o.t # Ev.t THEN "text" ELSE IF o.cnt # Ev.cnt THEN "search" ELSE IF o.tv # Ev.tv THEN "textview"
                           ELSE IF o.ds # Ev.ds THEN "descendants" ELSE "ok"
            ELSE /\ bad' = "not-enabled" /\ UNCHANGED <<mvars, evars>>
         /\ l' = l + 1 /\ UNCHANGED tid
TNext == TPick \/ ((Parse \/ Begin) /\ UNCHANGED <<tid, l, bad>>) \/ TStep
TSpec == TInit /\ [][TNext]_tvars
TDone == (estage = "edit" /\ (bad # "ok" \/ l > Len(Traces[tid].h))) \/ (estage = "parse" /\ phase = "done" /\ outcome # "ok")
Verdict == TDone => PrintT(ToJson([tid |-> tid, verdict |-> IF estage = "parse" THEN "parse" ELSE bad, at |-> l - 1]))
=============================================================================

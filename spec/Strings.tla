------------------------------- MODULE Strings -------------------------------
(***************************************************************************)
(* Arbitrary-string experiments (C06, C07, C08, C16, C19, part of C17).    *)
(*                                                                         *)
(* One behaviour = one experiment on one source:                           *)
(*   gen   : the source is built word by word from the alphabet Words      *)
(*           (or taken from the constant Sources - used for trace          *)
(*           validation, where the sources are those the real code ran on) *)
(*   run A : strict parse (tolerance 0)                                    *)
(*   run B : tolerant parse (tolerance 1) of the same source               *)
(*   run C : strict parse of run A's output (only if A succeeded)          *)
(* At the end (run = "end") the cross-run contracts are plain state        *)
(* invariants over the saved results, and the Dump invariant prints the    *)
(* whole experiment as one JSON record for the replay into the real code.  *)
(***************************************************************************)
EXTENDS TexMachine, TexContract, Json

CONSTANTS Scopes,     \* sequence of [w |-> set of words (Seq(Char)), n |-> maximal, m |-> minimal number of words per source]
          Sources,    \* set of complete sources (used instead of / besides the alphabet)
          UserSkip,   \* skip_envs option of every run
          DoB, DoC    \* BOOLEAN: perform the tolerant run / the re-parse run (a check that does not need one saves the states)

VARIABLES scope, nwords, run, src0, resA, resB, devs
svars == <<scope, nwords, run, src0, resA, resB, devs>>
vars == <<mvars, svars>>

NoRes == [o |-> "none", out |-> <<>>, tree |-> <<>>, toks |-> <<>>, steps |-> 0]
CurRes == [o |-> outcome, out |-> Out, tree |-> root, toks |-> toks, steps |-> steps]

Init == /\ MInit /\ scope \in 0..Len(Scopes) /\ nwords = 0 /\ run = "gen" /\ src0 = <<>> /\ resA = NoRes /\ resB = NoRes /\ devs = {}

Extend == /\ run = "gen" /\ scope > 0 /\ nwords < Scopes[scope].n
          /\ \E w \in Scopes[scope].w : input' = input \o w
          /\ nwords' = nwords + 1
          /\ UNCHANGED <<scope, phase, tol, uskip, pos, toks, tp, stack, outcome, root, steps, run, src0, resA, resB, devs>>

StartA(src) == /\ ResetRun(src, 0, UserSkip) /\ src0' = src /\ run' = "A" /\ nwords' = 0 /\ scope' = 0
               /\ UNCHANGED <<resA, resB, devs>>
Start == /\ run = "gen" /\ scope > 0 /\ nwords >= Scopes[scope].m /\ StartA(input)
Pick == /\ run = "gen" /\ scope = 0 /\ input = <<>> /\ nwords = 0 /\ \E s \in Sources : StartA(s)

(* deviations of the current run that matter for side conditions *)
StepM == /\ run \in {"A", "B", "C"} /\ MNext
         /\ devs' = IF run \in {"A", "B"} /\ phase = "parse" /\ Top.f = "CMD" /\ Top.pc \in {"req1", "req2"}
                       /\ Top.nreq > 0 /\ HasNext(tp)
                       /\ (LET j == IF TC(tp) = "Sp" THEN tp + 1 ELSE tp IN HasNext(j) /\ TC(j) \notin {"GB", "Com", "GE"})       \* (a comment before the brace group does not make the argument unbraced)
                    THEN devs \cup {"BareArg"} ELSE devs
         /\ UNCHANGED <<scope, nwords, run, src0, resA, resB>>

StartC == IF DoC /\ (IF run = "A" THEN outcome ELSE resA.o) = "ok"
          THEN ResetRun(IF run = "A" THEN Out ELSE resA.out, 0, UserSkip) /\ run' = "C"
          ELSE run' = "end" /\ UNCHANGED mvars
NextRun ==
  /\ Terminal
  /\ \/ /\ run = "A" /\ resA' = CurRes
        /\ IF DoB THEN ResetRun(src0, 1, UserSkip) /\ run' = "B" ELSE StartC
        /\ UNCHANGED <<resB, src0, nwords, devs, scope>>
     \/ /\ run = "B" /\ resB' = CurRes /\ StartC
        /\ UNCHANGED <<resA, src0, nwords, devs, scope>>
     \/ /\ run = "C" /\ run' = "end" /\ UNCHANGED <<mvars, resA, resB, src0, nwords, devs, scope>>

Next == Extend \/ Start \/ Pick \/ StepM \/ NextRun
Spec == Init /\ [][Next]_vars
(* termination as a liveness property (checked in a tiny scope; the safety counterpart is StepBound): once a source is    *)
(* started, every fair behaviour reaches the end of the experiment                                                     *)
FairSpec == Spec /\ WF_vars(StepM \/ NextRun)
Terminates == (run \in {"A", "B", "C"}) ~> (run = "end")

(***************************************************************************)
(* Side conditions of C08 / C16, as functions of the source (through the   *)
(* reference run A on it).                                                 *)
(***************************************************************************)
SC8 == NoIgn(src0) /\ "BareArg" \notin devs
SizePrefixBare == \E i \in 2..Len(resA.toks) : resA.toks[i].c = "Name" /\ resA.toks[i].s \in SizePrefix /\ resA.toks[i-1].c = "Esc"
SC16 == SC8 /\ ~SizePrefixBare
Final == run = "end"
ResC == CurRes    \* valid when Final and resA.o = "ok"

(***************************************************************************)
(* Contract invariants (MACHINE |= CONTRACT)                               *)
(***************************************************************************)
C06_Diagnostic == OutcomeIsDiagnostic
C06_StepBound == StepBound
C07a_TolerantExtends == (Final /\ DoB /\ resA.o = "ok") => (resB.o = "ok" /\ resB.tree = resA.tree /\ resB.out = resA.out)
C07c_OnlyClosers == (Final /\ resB.o = "ok" /\ SC8) => OnlyClosersInserted(src0, resB.out)
(* C07(b): every source of this run is a well-formed document (no math / verbatim / list region) that lost ONE closer *)
C07b_CloserLossRepaired == (Final /\ src0 \in Sources) => (resA.o # "ok" /\ resB.o = "ok")
C08_Conserves == (Final /\ resA.o = "ok" /\ SC8) => Conserves(src0, resA.out)
C16_FixedPoint == (Final /\ DoC /\ resA.o = "ok" /\ SC16) =>
                    (ResC.o = "ok" /\ ResC.out = resA.out /\ AbsSeq(ResC.tree) = AbsSeq(resA.tree))
C19_NonEmpty == NonEmptyTokens
C19_TokPos == TokPosTrue
C19_Partition == (phase \in {"lex", "parse", "done"}) => Partition
C17_LexDeterminism == LexDeterminism

(***************************************************************************)
(* Dump for the replay into the real code                                  *)
(***************************************************************************)
FlatT(ts) == [i \in 1..Len(ts) |-> <<N2S(ts[i].p), N2S(Len(ts[i].s)), ts[i].c>>]
ResJ(r) == [o |-> r.o, out |-> r.out, flat |-> FlatSeq(r.tree), steps |-> r.steps]
Rec == [i |-> src0, A |-> ResJ(resA), B |-> ResJ(resB),
        C |-> IF DoC /\ resA.o = "ok" THEN ResJ(ResC) ELSE ResJ(NoRes),
        toks |-> FlatT(resA.toks), sc8 |-> SC8, sc16 |-> SC16]
Dump == Final => PrintT(ToJson(Rec))

(* verdicts for trace validation: the clauses that fail on this experiment *)
Failing == {c \in {"C06", "C07a", "C07c", "C08", "C16"} :
             CASE c = "C06" -> ~(resA.o \in Diagnostics /\ resB.o \in Diagnostics)
               [] c = "C07a" -> ~(resA.o = "ok" => (resB.o = "ok" /\ resB.tree = resA.tree /\ resB.out = resA.out))
               [] c = "C07c" -> ~((resB.o = "ok" /\ SC8) => OnlyClosersInserted(src0, resB.out))
               [] c = "C08" -> ~((resA.o = "ok" /\ SC8) => Conserves(src0, resA.out))
               [] OTHER -> ~((resA.o = "ok" /\ SC16) => (ResC.o = "ok" /\ ResC.out = resA.out /\ AbsSeq(ResC.tree) = AbsSeq(resA.tree)))}
=============================================================================

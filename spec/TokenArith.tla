------------------------------ MODULE TokenArith ------------------------------
(***************************************************************************)
(* utils.Token: a string that knows its offset in the source.  Every       *)
(* operation that derives a token from a token (indexing, slicing, the     *)
(* strip family, iteration, concatenation with an adjacent piece on either *)
(* side) must keep the offset TRUE: a token cut from source S at offset p  *)
(* stays a slice of S.  (This is what node positions, token positions and  *)
(* search_regex offsets of C13 rest on.)                                   *)
(*                                                                         *)
(* State: a source, a window [p, p+n) of it (the token), and the last      *)
(* derived token with the operation that produced it.                      *)
(***************************************************************************)
EXTENDS Naturals, Integers, Sequences, TLC, Json

CONSTANTS TSources,   \* set of sources (Seq(Char))
          StripSets   \* set of character sets for strip(chars) ({} = whitespace)

VARIABLES src, p, n, last
tvars == <<src, p, n, last>>

Tok == SubSeq(src, p + 1, p + n)
Ws == {" ", "\t", "\n"}
RECURSIVE SetToSortedSeqOfChars(_)
SetToSortedSeqOfChars(S) == IF S = {} THEN <<>> ELSE LET c == CHOOSE x \in S : \A y \in S : x = y \/ ~(y \in S \ {x}) \/ TRUE IN << c >> \o SetToSortedSeqOfChars(S \ {c})
InSet(c, cs) == IF cs = {} THEN c \in Ws ELSE c \in cs
RECURSIVE LCount(_, _), RCount(_, _)
LCount(s, cs) == IF s # <<>> /\ InSet(s[1], cs) THEN 1 + LCount(Tail(s), cs) ELSE 0
RCount(s, cs) == IF s # <<>> /\ InSet(s[Len(s)], cs) THEN 1 + RCount(SubSeq(s, 1, Len(s) - 1), cs) ELSE 0

(* result of an operation: [t |-> text, q |-> offset] *)
R(t, q) == [t |-> t, q |-> q]
Index(i) == LET k == IF i < 0 THEN n + i ELSE i IN R(<< Tok[k+1] >>, p + k)                      \* t[i], -n <= i < n
Slice(a, b) == LET a2 == IF a < 0 THEN (IF n + a < 0 THEN 0 ELSE n + a) ELSE (IF a > n THEN n ELSE a)
                   b2 == IF b < 0 THEN (IF n + b < 0 THEN 0 ELSE n + b) ELSE (IF b > n THEN n ELSE b)
               IN R(SubSeq(Tok, a2 + 1, b2), p + a2)                                              \* t[a:b]
LStrip(cs) == LET k == LCount(Tok, cs) IN R(SubSeq(Tok, k + 1, n), IF k = n THEN p ELSE p + k)   \* an all-stripped token keeps p
RStrip(cs) == R(SubSeq(Tok, 1, n - RCount(Tok, cs)), p)
Strip(cs) == LET k == LCount(Tok, cs)
                 m == IF k = n THEN 0 ELSE RCount(Tok, cs) IN
             R(SubSeq(Tok, k + 1, n - m), IF k = n THEN p ELSE p + k)
Item(i) == R(<< Tok[i+1] >>, p + i)                                                               \* i-th token of iter(t)
AddRight(m) == R(SubSeq(src, p + 1, p + n + m), p)                                                \* t + S[p+n : p+n+m]
AddLeft(m) == R(SubSeq(src, p - m + 1, p + n), p - m)                                             \* S[p-m : p] + t

Init == /\ src \in TSources /\ p \in 0..Len(src) /\ n \in 0..(Len(src) - p) /\ last = [op |-> <<"init">>, r |-> R(<<>>, 0)]
Do(op, r) == last' = [op |-> op, r |-> r] /\ UNCHANGED <<src, p, n>>
Next == \/ \E i \in (0 - n)..(n - 1) : Do(<<"index", ToString(i)>>, Index(i))
        \* Dev_SliceStartUnderflow: a slice start below -len is clamped by str but not by the offset arithmetic
        \* (Token('aa', 0)[-3:1] reports offset -1); such starts are outside the model and outside every listed property
        \/ \E a \in (0 - n)..(n + 1) : \E b \in (0 - n - 1)..(n + 1) : Do(<<"slice", ToString(a), ToString(b)>>, Slice(a, b))
        \/ \E cs \in StripSets : \/ Do(<<"lstrip">> \o SetToSortedSeqOfChars(cs), LStrip(cs))
                                 \/ Do(<<"rstrip">> \o SetToSortedSeqOfChars(cs), RStrip(cs))
                                 \/ Do(<<"strip">> \o SetToSortedSeqOfChars(cs), Strip(cs))
        \/ \E i \in 0..(n - 1) : Do(<<"item", ToString(i)>>, Item(i))
        \/ \E m \in 0..(Len(src) - p - n) : Do(<<"addright", ToString(m)>>, AddRight(m))
        \/ \E m \in 0..p : Do(<<"addleft", ToString(m)>>, AddLeft(m))
Spec == Init /\ [][Next]_tvars

(* the contract: a derived token is a true slice of the source (empty tokens excepted) *)
SliceTrue == LET r == last.r IN
             r.t = <<>> \/ (r.q >= 0 /\ r.q + Len(r.t) <= Len(src) /\ SubSeq(src, r.q + 1, r.q + Len(r.t)) = r.t)
Dump == (last.op # <<"init">>) => PrintT(ToJson([s |-> src, p |-> p, n |-> n, op |-> last.op, t |-> last.r.t, q |-> last.r.q]))
=============================================================================

----------------------------- MODULE TexMachine -----------------------------
(***************************************************************************)
(* MACHINE layer: the tokenizer (tokens.py) and the reader (reader.py) of  *)
(* TexSoup as an implementation-shaped state machine.                      *)
(*                                                                         *)
(*   phase "lex"   : one LexRound per round of next_token (one action per  *)
(*                   tokenizer rule, tried in the code's order)            *)
(*   phase "parse" : a push-down machine; one ParseStep per loop iteration *)
(*                   / call / return of the read_* functions, including    *)
(*                   the look-ahead (peek + rollback) of read_env and      *)
(*                   read_item                                             *)
(*                                                                         *)
(* The module owns the run state only; generators (Strings, DocGen) and    *)
(* drivers (several runs per experiment) extend it.                        *)
(***************************************************************************)
EXTENDS TexTree, TLC

VARIABLES
  phase,     \* "gen" | "lex" | "parse" | "done"
  input,     \* Seq(Char): the source of the current run
  tol,       \* tolerance of the current run (0 | 1)
  uskip,     \* user-supplied skip_envs of the current run (set of names)
  pos,       \* lexer cursor (0-based)
  toks,      \* tokens so far: [c |-> category, s |-> text, p |-> offset]
  tp,        \* reader cursor into toks (1-based; the code's Buffer.position is tp-1)
  stack,     \* reader frames
  outcome,   \* "running" | "ok" | "EOFError" | "TypeError" | "AssertionError" | "leak:<exc>"
  root,      \* contents of the root expression when outcome = "ok"
  steps      \* number of ParseSteps of this run (for the termination bound)
mvars == <<phase, input, tol, uskip, pos, toks, tp, stack, outcome, root, steps>>

ResetRun(src, t, us) ==
  /\ phase' = "lex" /\ input' = src /\ tol' = t /\ uskip' = us /\ pos' = 0 /\ toks' = <<>> /\ tp' = 1
  /\ stack' = <<>> /\ outcome' = "running" /\ root' = <<>> /\ steps' = 0

MInit == /\ phase = "gen" /\ input = <<>> /\ tol = 0 /\ uskip = {} /\ pos = 0 /\ toks = <<>> /\ tp = 1
         /\ stack = <<>> /\ outcome = "running" /\ root = <<>> /\ steps = 0

(***************************************************************************)
(* Lexer (Appendix A of DESIGN.md).                                        *)
(***************************************************************************)
n == Len(input)
cat(i) == IF i >= 0 /\ i < n THEN Cat(input[i+1]) ELSE "EOF"
RECURSIVE RunEnd(_, _)
RunEnd(i, CS) == IF cat(i) \in CS THEN RunEnd(i+1, CS) ELSE i
RECURSIVE RunEndNot(_, _)
RunEndNot(i, CS) == IF i < n /\ cat(i) \notin CS THEN RunEndNot(i+1, CS) ELSE i
Escapable == {"Esc","GB","GE","MS","Misc","EOL","Sp","Com","Oth"}
StopSet == {"Esc","GB","GE","MS","BB","BE","Com"}
Tok(c, a, b) == [c |-> c, s |-> SubSeq(input, a+1, b), p |-> a]
Min(a,b) == IF a < b THEN a ELSE b
(* The character before the cursor; at cursor 0 there is none.  (Until the repair recorded in known_findings.json - C20,   *)
(* look-behind before the start - text.peek(-1) at cursor 0 was a negative Python index on the lazily filled queue, i.e.  *)
(* the last *materialised* character: former named deviation Dev_PeekWrap.)                                               *)
PrevCat(p) == IF p > 0 THEN cat(p-1) ELSE "Start"
PrevCat10(p) == PrevCat(p)
MatchesAt(pt, p) == p + Len(pt) <= n /\ SubSeq(input, p+1, p+Len(pt)) = pt
RECURSIVE NameEnd(_)
NameEnd(i) == IF i < n /\ (cat(i) = "Let" \/ input[i+1] = "*") THEN NameEnd(i+1) ELSE i
SpEnd(p) == LET a == RunEnd(p, {"Sp"})
                b == IF cat(a) = "EOL" THEN a+1 ELSE a
            IN RunEnd(b, {"Sp"})

(* R7..R11 at p; set-valued because R9 iterates a Python set *)
LateToks(p) ==
  LET e7 == SpEnd(p)
      r7 == e7 > p /\ ~(cat(e7) \in {"Let","Oth"})
      r8 == cat(p) \in {"Esc","GB","GE","BB","BE"}
      m9 == IF PrevCat(p) = "Esc" THEN {pt \in Punct : MatchesAt(pt, p)} ELSE {}
      r10 == PrevCat10(p) = "Esc" /\ cat(p) = "Let"
  IN IF r7 THEN {Tok("Sp", p, e7)}
     ELSE IF r8 THEN {Tok(cat(p), p, p+1)}
     ELSE IF m9 # {} THEN {Tok("Punct", p, p + Len(pt)) : pt \in m9}
     ELSE IF r10 THEN {Tok("Name", p, NameEnd(p+1))}
     ELSE {Tok("Text", p, RunEndNot(p, StopSet))}

(* the set of possible results of one round at p: a token, or "skip to q" *)
RoundToks(p) ==
  IF cat(p) = "Esc" /\ cat(p+1) \in Escapable THEN {Tok("EscSym", p, p+2)}                       \* R1
  ELSE IF cat(p) = "Com" THEN {Tok("Com", p, RunEndNot(p+1, {"EOL"}))}                            \* R2
  ELSE IF cat(p) = "MS" THEN {IF cat(p+1) = "MS" THEN Tok("DMS", p, p+2) ELSE Tok("MS", p, p+1)}  \* R3
  ELSE IF cat(p) = "Esc" /\ cat(p+1) \in {"BB","BE","PB","PE"} THEN                               \* R4
         {Tok(CASE cat(p+1) = "BB" -> "DMGB" [] cat(p+1) = "BE" -> "DMGE" [] cat(p+1) = "PB" -> "MGB" [] OTHER -> "MGE", p, p+2)}
  ELSE LateToks(p)                                                                                \* R7..R11

LexIgnore ==     \* R6: skip a run of NUL/DEL, then start a new round
  /\ phase = "lex" /\ outcome = "running" /\ pos < n /\ cat(pos) = "Ign"
  /\ pos' = RunEnd(pos, {"Ign"})
  /\ UNCHANGED <<phase, input, tol, uskip, toks, tp, stack, outcome, root, steps>>

LexRound ==
  /\ phase = "lex" /\ outcome = "running" /\ pos < n /\ cat(pos) # "Ign"
  /\ \E t \in RoundToks(pos) : /\ toks' = Append(toks, t) /\ pos' = t.p + Len(t.s)
  /\ UNCHANGED <<phase, input, tol, uskip, tp, stack, outcome, root, steps>>

LexDone == /\ phase = "lex" /\ outcome = "running" /\ pos >= n
           /\ phase' = "parse"
           /\ stack' = << [f |-> "TEX", items |-> <<>>] >>
           /\ UNCHANGED <<input, tol, uskip, pos, toks, tp, outcome, root, steps>>

(***************************************************************************)
(* Reader (Appendix B of DESIGN.md).                                       *)
(***************************************************************************)
TextN(t) == TextOf(t.c, t.s, t.p)
ArgString(a) == IF a.k = "group" THEN StrSeq(a.body) ELSE <<>>
NT == Len(toks)
HasNext(i) == i <= NT
TC(i) == IF i <= NT THEN toks[i].c ELSE "EOF"
Top == stack[Len(stack)]
Pop == SubSeq(stack, 1, Len(stack)-1)
SetTop(fr) == [stack EXCEPT ![Len(stack)] = fr]
Containers == {"TEX","ENV","MATH","ARG","ITEM"}

CmdFrame(then, skipn, nreq, nopt, ftol, fmode, cmode, cskip, p, start) ==
  [f |-> "CMD", pc |-> "name", then |-> then, skipn |-> skipn, nreq |-> nreq, nopt |-> nopt, tol |-> ftol,
   mode |-> fmode, cmode |-> cmode, cskip |-> cskip, pos |-> p, start |-> start, name |-> <<>>, args |-> <<>>]
ArgFrame(kind, p, ftol, fmode) == [f |-> "ARG", kind |-> kind, pos |-> p, tol |-> ftol, mode |-> fmode, items |-> <<>>]
MathFrame(kind, p, ftol) == [f |-> "MATH", kind |-> kind, pos |-> p, tol |-> ftol, items |-> <<>>]
EnvFrame(ename, args, skip, ftol, fmode, p) ==
  [f |-> "ENV", pc |-> "loop", ename |-> ename, args |-> args, skip |-> skip, tol |-> ftol, mode |-> fmode, pos |-> p,
   items |-> <<>>, pargs |-> <<>>, pend |-> 0]
ItemFrame(args, p) == [f |-> "ITEM", pc |-> "loop", args |-> args, pos |-> p, items |-> <<>>]

Raise(kind) == /\ outcome' = kind /\ phase' = "done" /\ UNCHANGED <<stack, tp, root>>
Keep == UNCHANGED <<outcome, root, phase>>

(* hand a finished node to the frame below (after popping the top) *)
Deliver(st, node) ==
  LET fr == st[Len(st)] IN
  IF fr.f \in Containers THEN [st EXCEPT ![Len(st)] = [fr EXCEPT !.items = Append(fr.items, node)]]
  ELSE [st EXCEPT ![Len(st)] = [fr EXCEPT !.args = Append(fr.args, node),
                                           !.nopt = IF fr.pc \in {"opt1","opt2"} THEN fr.nopt - 1 ELSE fr.nopt,
                                           !.nreq = IF fr.pc \in {"req1","req2"} THEN fr.nreq - 1 ELSE fr.nreq]]

(* read_expr, executed by a container frame with (tolerance, mode, skip) *)
Dispatch(ftol, fmode, fskip) ==
  LET c == toks[tp] IN
  /\ tp' = tp + 1
  /\ IF c.c \in {"MS","DMS","MGB","DMGB"} THEN
        stack' = Append(stack, MathFrame(CASE c.c = "MS" -> "$" [] c.c = "DMS" -> "$$" [] c.c = "MGB" -> "\\(" [] OTHER -> "\\[", c.p, ftol))
     ELSE IF c.c = "Esc" THEN
        stack' = Append(stack, CmdFrame("expr", 0, 0-1, 0-1, ftol, fmode, fmode, fskip, c.p, 0))
     ELSE IF c.c = "GB" THEN
        stack' = Append(stack, ArgFrame("{", c.p, ftol, fmode))      \* a brace group inherits the mode
     ELSE stack' = SetTop([Top EXCEPT !.items = Append(Top.items, TextN(c))])
  /\ Keep

StepTEX ==
  IF ~HasNext(tp) THEN /\ outcome' = "ok" /\ phase' = "done" /\ root' = Top.items /\ UNCHANGED <<stack, tp>>
  ELSE Dispatch(tol, "nm", TRUE)

EndTok(kind) == CASE kind = "{" -> "GE" [] kind = "[" -> "BE" [] kind = "$" -> "MS" [] kind = "$$" -> "DMS"
                  [] kind = "\\(" -> "MGE" [] OTHER -> "DMGE"

StepARG ==     \* read_arg
  LET fr == Top
      grp == Node("group", <<>>, fr.kind, <<>>, <<>>, fr.items, fr.pos) IN
  IF ~HasNext(tp) THEN
       IF fr.tol = 0 THEN Raise("TypeError")
       ELSE /\ stack' = Deliver(Pop, grp) /\ UNCHANGED tp /\ Keep
  ELSE IF TC(tp) = EndTok(fr.kind) THEN
       /\ tp' = tp + 1 /\ stack' = Deliver(Pop, grp) /\ Keep
  ELSE Dispatch(fr.tol, fr.mode, FALSE)

StepMATH ==    \* read_math_env: never tolerant
  LET fr == Top IN
  IF ~HasNext(tp) THEN Raise("EOFError")
  ELSE IF TC(tp) = EndTok(fr.kind) THEN
       /\ tp' = tp + 1
       /\ stack' = Deliver(Pop, Node("math", <<>>, fr.kind, <<>>, <<>>, fr.items, fr.pos))
       /\ Keep
  ELSE Dispatch(fr.tol, "m", FALSE)

ItemWord == <<"i","t","e","m">>
BeginWord == <<"b","e","g","i","n">>
EndWord == <<"e","n","d">>

StepITEM ==    \* read_item: tolerance 0, non-math, no skip_envs whatever the caller had
  LET fr == Top
      done == /\ stack' = Deliver(Pop, Node("cmd", ItemWord, "", <<>>, fr.args, fr.items, fr.pos))
              /\ UNCHANGED tp /\ Keep IN
  IF fr.pc = "dispatch" THEN
       /\ tp' = tp + 1
       /\ stack' = Append(SetTop([fr EXCEPT !.pc = "loop"]), CmdFrame("expr", 0, 0-1, 0-1, 0, "nm", "nm", FALSE, toks[tp].p, 0))
       /\ Keep
  ELSE IF ~HasNext(tp) THEN done
  ELSE IF TC(tp) = "Esc" THEN
       /\ stack' = Append(stack, CmdFrame("peekitem", 1, 0, 0, 0, "nm", "nm", FALSE, toks[tp].p, tp))
       /\ UNCHANGED tp /\ Keep
  ELSE IF TC(tp) = "GE" THEN done
  ELSE Dispatch(0, "nm", FALSE)

StepENV ==     \* read_env
  LET fr == Top IN
  IF fr.pc = "dispatch" THEN
       /\ tp' = tp + 1
       /\ stack' = Append(SetTop([fr EXCEPT !.pc = "loop"]), CmdFrame("expr", 0, 0-1, 0-1, fr.tol, fr.mode, fr.mode, fr.skip, toks[tp].p, 0))
       /\ Keep
  ELSE IF fr.pc = "close" THEN
       LET error == IF ~HasNext(tp) \/ fr.pargs = <<>> THEN TRUE ELSE ArgString(fr.pargs[1]) # fr.ename
           node == Node("env", fr.ename, "", <<>>, fr.args, fr.items, fr.pos) IN
       IF error /\ fr.tol = 0 THEN Raise("EOFError")
       ELSE /\ tp' = IF error THEN tp ELSE fr.pend      \* read_env_end consumes what the look-ahead matched
            /\ stack' = Deliver(Pop, node)
            /\ Keep
  ELSE IF ~HasNext(tp) THEN
       /\ stack' = SetTop([fr EXCEPT !.pc = "close"]) /\ UNCHANGED tp /\ Keep
  ELSE IF TC(tp) = "Esc" THEN   \* make_read_peek(read_env_end)
       /\ stack' = Append(stack, CmdFrame("peekenv", 1, 0, 0, fr.tol, fr.mode, fr.mode, fr.skip, toks[tp].p, tp))
       /\ UNCHANGED tp /\ Keep
  ELSE Dispatch(fr.tol, fr.mode, fr.skip)

(* read_skip_env: one step *)
RECURSIVE JoinToks(_, _)
JoinToks(i, k) == IF k = 0 \/ i > NT THEN <<>> ELSE toks[i].s \o JoinToks(i+1, k-1)
StartsEnd(i, ename) == IsPrefixOf(EndOf(ename), JoinToks(i, Len(EndOf(ename))))
RECURSIVE ScanEnd(_, _)
ScanEnd(i, ename) == IF HasNext(i) /\ ~StartsEnd(i, ename) THEN ScanEnd(i+1, ename) ELSE i
StepSKIP ==
  LET fr == Top
      q == ScanEnd(tp, fr.ename)
      body == [c |-> "Raw", s |-> JoinToks(tp, q - tp), p |-> IF tp <= NT THEN toks[tp].p ELSE tp - 1] IN
  IF ~StartsEnd(q, fr.ename) THEN Raise("EOFError")
  ELSE /\ tp' = q + 5       \* Dev_SkipEndFixedLength: src.forward(5) - exact for single-token names
       /\ stack' = Deliver(Pop, Node("env", fr.ename, "", <<>>, fr.args, << TextN(body) >>, fr.pos))
       /\ Keep

SkipSet == SkipEnvNames \cup uskip

StepCMD ==     \* read_command / read_args / read_arg_optional / read_arg_required / read_env_end
  LET fr == Top IN
  CASE fr.pc = "name" ->
         LET i == tp + fr.skipn IN
         IF i > NT THEN Raise("EOFError")
         ELSE LET nm == toks[i].s
                  md == IF nm \in Special THEN "sp" ELSE fr.mode
                  sg == IF fr.nreq < 0 /\ fr.nopt < 0 THEN Sig(nm) ELSE <<fr.nreq, fr.nopt>>
                  fr2 == [fr EXCEPT !.name = nm, !.mode = md, !.nreq = sg[1], !.nopt = sg[2],
                                    !.pc = IF sg[1] = 0 /\ sg[2] = 0
                                           THEN (IF fr.then = "peekenv" /\ nm = EndWord THEN "endgrp" ELSE "done")
                                           ELSE "opt1"]
              IN /\ tp' = i + 1 /\ stack' = SetTop(fr2) /\ Keep
    [] fr.pc = "endgrp" ->      \* read_env_end: optional spacer, then at most one brace group
         LET sp == HasNext(tp) /\ TC(tp) = "Sp"
             j == IF sp THEN tp + 1 ELSE tp IN
         IF HasNext(j) /\ TC(j) = "GB" THEN
              /\ tp' = j + 1
              /\ stack' = Append(SetTop([fr EXCEPT !.pc = "done"]), ArgFrame("{", toks[j].p, fr.tol, fr.mode))
              /\ Keep
         ELSE /\ stack' = SetTop([fr EXCEPT !.pc = "done"]) /\ UNCHANGED tp /\ Keep
    [] fr.pc \in {"opt1","opt2"} ->
         LET nextpc == IF fr.pc = "opt1" THEN "req1" ELSE "gate2"
             sp == HasNext(tp) /\ TC(tp) = "Sp"
             j == IF sp THEN tp + 1 ELSE tp IN
         IF fr.nopt = 0 THEN /\ stack' = SetTop([fr EXCEPT !.pc = nextpc]) /\ UNCHANGED tp /\ Keep
         ELSE IF ~(HasNext(j) /\ TC(j) = "BB") THEN
              /\ stack' = SetTop([fr EXCEPT !.pc = nextpc]) /\ UNCHANGED tp /\ Keep
         ELSE /\ tp' = j + 1
              /\ stack' = Append(stack, ArgFrame("[", toks[j].p, fr.tol, fr.mode))
              /\ Keep
    [] fr.pc \in {"req1","req2"} ->
         LET nextpc == IF fr.pc = "req1" THEN "gate1" ELSE "done"
             sp == HasNext(tp) /\ TC(tp) = "Sp"
             j == IF sp THEN tp + 1 ELSE tp IN
         IF fr.nreq = 0 \/ ~HasNext(tp) THEN /\ stack' = SetTop([fr EXCEPT !.pc = nextpc]) /\ UNCHANGED tp /\ Keep
         ELSE IF HasNext(j) /\ TC(j) = "GB" THEN
              /\ tp' = j + 1
              /\ stack' = Append(stack, ArgFrame("{", toks[j].p, fr.tol, fr.mode))
              /\ Keep
         ELSE IF HasNext(j) /\ fr.nreq > 0 /\ TC(j) \notin {"Com", "GE"} THEN      \* a comment / an enclosing closing brace is never taken as the unbraced argument
              LET t == toks[j] IN
              IF t.c = "Esc" THEN
                   /\ tp' = j + 1
                   /\ stack' = Append(stack, CmdFrame("bare", 0, 0, 0, fr.tol, fr.mode, fr.mode, FALSE, t.p, 0))
                   /\ Keep
              ELSE /\ tp' = j + 1      \* Dev_Rebrace: the token becomes the body of a synthesised brace group (which has no offset)
                   /\ stack' = SetTop([fr EXCEPT !.args = Append(fr.args,
                                          Node("group", <<>>, "{", <<>>, <<>>, << TextN(t) >>, 0-1)),
                                        !.nreq = fr.nreq - 1])
                   /\ Keep
         ELSE /\ stack' = SetTop([fr EXCEPT !.pc = nextpc]) /\ UNCHANGED tp /\ Keep
    [] fr.pc = "gate1" ->
         /\ stack' = SetTop([fr EXCEPT !.pc = IF HasNext(tp) /\ TC(tp) = "BB" THEN "opt2" ELSE "gate2"])
         /\ UNCHANGED tp /\ Keep
    [] fr.pc = "gate2" ->
         /\ stack' = SetTop([fr EXCEPT !.pc = IF HasNext(tp) /\ TC(tp) = "GB" THEN "req2" ELSE "done"])
         /\ UNCHANGED tp /\ Keep
    [] OTHER ->   \* "done"
         CASE fr.then = "bare" ->
                /\ stack' = Deliver(Pop, Node("cmd", fr.name, "", <<>>, <<>>, <<>>, fr.pos))
                /\ UNCHANGED tp /\ Keep
           [] fr.then = "peekenv" ->
                LET below == stack[Len(stack)-1] IN
                /\ tp' = fr.start
                /\ stack' = [Pop EXCEPT ![Len(stack)-1] =
                               IF fr.name = EndWord THEN [below EXCEPT !.pc = "close", !.pargs = fr.args, !.pend = tp]
                               ELSE [below EXCEPT !.pc = "dispatch"]]
                /\ Keep
           [] fr.then = "peekitem" ->
                LET below == stack[Len(stack)-1] IN
                /\ tp' = fr.start
                /\ IF fr.name \in {EndWord, ItemWord}
                   THEN stack' = Deliver(SubSeq(stack, 1, Len(stack)-2),
                                         Node("cmd", ItemWord, "", <<>>, below.args, below.items, below.pos))
                   ELSE stack' = [Pop EXCEPT ![Len(stack)-1] = [below EXCEPT !.pc = "dispatch"]]
                /\ Keep
           [] OTHER -> \* "expr": the rest of read_expr
                IF fr.name = ItemWord THEN
                     IF fr.cmode = "m" THEN Raise("AssertionError")
                     ELSE /\ stack' = Append(Pop, ItemFrame(fr.args, fr.pos)) /\ UNCHANGED tp /\ Keep
                ELSE IF fr.name = BeginWord /\ fr.cmode # "sp" THEN
                     IF (IF fr.args = <<>> THEN TRUE ELSE ~(fr.args[1].k = "group" /\ fr.args[1].kind = "{"))
                     THEN Raise("AssertionError")
                     ELSE LET ename == ArgString(fr.args[1])
                              md == IF ename \in MathEnvNames THEN "m" ELSE fr.cmode
                              rest == Tail(fr.args) IN
                          /\ stack' = Append(Pop, IF fr.cskip /\ ename \in SkipSet
                                                  THEN [f |-> "SKIP", ename |-> ename, args |-> rest, pos |-> fr.pos]
                                                  ELSE EnvFrame(ename, rest, fr.cskip, fr.tol, md, fr.pos))
                          /\ UNCHANGED tp /\ Keep
                ELSE /\ stack' = Deliver(Pop, Node("cmd", fr.name, "", <<>>, fr.args, <<>>, fr.pos))
                     /\ UNCHANGED tp /\ Keep

ParseStep ==
  /\ phase = "parse" /\ outcome = "running"
  /\ steps' = steps + 1
  /\ CASE Top.f = "TEX" -> StepTEX
       [] Top.f = "ARG" -> StepARG
       [] Top.f = "MATH" -> StepMATH
       [] Top.f = "ITEM" -> StepITEM
       [] Top.f = "ENV" -> StepENV
       [] Top.f = "SKIP" -> StepSKIP
       [] OTHER -> StepCMD
  /\ UNCHANGED <<input, tol, uskip, pos, toks>>

MNext == LexIgnore \/ LexRound \/ LexDone \/ ParseStep

(***************************************************************************)
(* Machine-level invariants                                                *)
(***************************************************************************)
Terminal == outcome # "running"
Out == IF outcome = "ok" THEN StrSeq(root) ELSE <<>>
Diagnostics == {"ok","EOFError","TypeError","AssertionError"}
OutcomeIsDiagnostic == outcome \in Diagnostics \cup {"running"}
(* Termination as a safety property: every ParseStep consumes a token, returns from a frame, or is a *)
(* bounded look-ahead (name, or name + the name group of \end), so the number of steps is LINEAR in  *)
(* the number of tokens.  (Measured maximum on the explored scopes: 4.34 steps per token.)           *)
StepBound == steps <= 8 * (Len(toks) + 1)
LexProgress == [][phase = "lex" /\ phase' = "lex" => pos' > pos]_mvars
LexDeterminism == (phase = "lex" /\ pos < n /\ cat(pos) # "Ign") => Cardinality(RoundToks(pos)) = 1

RECURSIVE CatToks(_)
CatToks(ts) == IF ts = <<>> THEN <<>> ELSE Head(ts).s \o CatToks(Tail(ts))
NonEmptyTokens == \A i \in 1..Len(toks) : toks[i].s # <<>>
TokPosTrue == \A i \in 1..Len(toks) : toks[i].s = SubSeq(input, toks[i].p + 1, toks[i].p + Len(toks[i].s))
TokOrdered == \A i \in 1..(Len(toks)-1) : toks[i].p + Len(toks[i].s) <= toks[i+1].p
(* the tokens cover the consumed prefix except for dropped NUL/DEL *)
RECURSIVE DropIgn(_)
DropIgn(s) == IF s = <<>> THEN <<>> ELSE IF Cat(Head(s)) = "Ign" THEN DropIgn(Tail(s)) ELSE << Head(s) >> \o DropIgn(Tail(s))
RECURSIVE OnlyIgnBetween(_, _)
OnlyIgnBetween(a, b) == a >= b \/ (cat(a) = "Ign" /\ OnlyIgnBetween(a+1, b))
Partition ==
  /\ \A i \in 1..(Len(toks)-1) : OnlyIgnBetween(toks[i].p + Len(toks[i].s), toks[i+1].p)
  /\ (toks # <<>> => OnlyIgnBetween(0, toks[1].p))
  /\ (toks # <<>> => OnlyIgnBetween(toks[Len(toks)].p + Len(toks[Len(toks)].s), pos))
  /\ (toks = <<>> => OnlyIgnBetween(0, pos))
FlatToks == [i \in 1..Len(toks) |-> <<toks[i].p, Len(toks[i].s), toks[i].c>>]
=============================================================================

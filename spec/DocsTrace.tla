------------------------------ MODULE DocsTrace ------------------------------
(***************************************************************************)
(* Trace validation for documents the specification did not generate       *)
(* (the repository's samples, the TeX literals of tests / docs): one       *)
(* observation of the real parser per line of docs.ndjson                  *)
(*   [i, o, out, slices |-> << [p, s] >>, texts |-> << [p, s] >>,          *)
(*    views |-> ..., find |-> ...]                                         *)
(* TLC decides *lexically on the recorded source* whether the hypothesis   *)
(* of C01 applies (no blank directly before any brace / bracket, the four  *)
(* signature commands followed by a group), runs the reference machine on  *)
(* the source, and evaluates the contract clauses on the recorded values.  *)
(***************************************************************************)
EXTENDS TexMachine, TexContract, Json

Obs == ndJsonDeserialize("docs.ndjson")
VARIABLE tid
dvars == <<mvars, tid>>
CONSTANT UserSkipT

DInit == MInit /\ tid = 0
DPick == /\ phase = "gen" /\ tid = 0 /\ \E k \in 1..Len(Obs) : ResetRun(Obs[k].i, 0, UserSkipT) /\ tid' = k
DNext == DPick \/ (MNext /\ UNCHANGED tid)
DSpec == DInit /\ [][DNext]_dvars
O == Obs[tid]

(* lexical hypothesis of C01 *)
NoBlankBeforeGroup(s) == \A k \in 2..Len(s) : s[k] \in {"{", "["} => ~WsC(s[k-1])
SigWords == {<<"d","e","f">>, <<"t","e","x","t","b","f">>, <<"s","e","c","t","i","o","n">>, <<"l","a","b","e","l">>}
SigFollowed(s) == \A k \in 1..Len(s) : \A w \in SigWords :
                    (s[k] = "\\" /\ k + Len(w) <= Len(s) /\ SubSeq(s, k+1, k+Len(w)) = w
                       /\ (k = 1 \/ s[k-1] # "\\"))
                    => (k + Len(w) < Len(s) /\ (s[k+Len(w)+1] \in {"{", "["} \/ s[k+Len(w)+1] \in Letters \/ s[k+Len(w)+1] = "*"))
Hyp == NoBlankBeforeGroup(O.i) /\ SigFollowed(O.i) /\ NoIgn(O.i)

RECURSIVE CountLF(_, _)
CountLF(s, k) == IF k = 0 THEN 0 ELSE (IF s[k] = "\n" THEN 1 ELSE 0) + CountLF(s, k-1)
RECURSIVE LineStart(_, _)
LineStart(s, k) == IF k = 0 THEN 0 ELSE IF s[k] = "\n" THEN k ELSE LineStart(s, k-1)
LCOK(src, lc) == Len(lc) = Len(src) /\ \A k \in 1..Len(src) : lc[k] = <<CountLF(src, k-1), (k-1) - LineStart(src, k-1)>>
SliceRec(src, r) == r.p >= 0 /\ r.p + Len(r.s) <= Len(src) /\ SubSeq(src, r.p + 1, r.p + Len(r.s)) = r.s
FirstCharRec(src, r) == r.s = <<>> \/ (r.p >= 0 /\ r.p < Len(src) /\ src[r.p + 1] = r.s[1])
DocFailing ==
  {c \in {"C01rt", "C01slice", "C13pos", "C13lc", "C08"} :
     CASE c = "C01rt" -> ~((Hyp /\ O.o = "ok") => O.out = O.i)
       [] c = "C01slice" -> ~((Hyp /\ O.o = "ok") => (\A k \in 1..Len(O.slices) : SliceRec(O.i, O.slices[k]))
                                                   /\ (\A k \in 1..Len(O.texts) : SliceRec(O.i, O.texts[k])))
       [] c = "C13pos" -> ~((O.o = "ok" /\ Hyp) => (\A k \in 1..Len(O.slices) : FirstCharRec(O.i, O.slices[k]))
                                                  /\ (\A k \in 1..Len(O.texts) : FirstCharRec(O.i, O.texts[k])))
       [] c = "C13lc" -> ~(O.o = "ok" => LCOK(O.i, O.lc))
       [] OTHER -> ~((O.o = "ok" /\ NoIgn(O.i) /\ SigFollowed(O.i)) => Conserves(O.i, O.out))}
DocDrift == {d \in {"o", "out", "flat"} :
               CASE d = "o" -> O.o # outcome
                 [] d = "out" -> O.o = "ok" /\ outcome = "ok" /\ O.out # Out
                 [] OTHER -> O.o = "ok" /\ outcome = "ok" /\ O.flat # FlatSeq(root)}
DVerdict == (phase = "done") => PrintT(ToJson([tid |-> tid, failing |-> DocFailing, drift |-> DocDrift, hyp |-> Hyp]))
=============================================================================

------------------------------- MODULE DocGen -------------------------------
(***************************************************************************)
(* Generator of well-formed documents (the grammar of documented           *)
(* constructs) as a left-to-right derivation machine over a stack of open  *)
(* containers: every syntax tree has exactly one derivation.  The          *)
(* generating syntax tree, with the source offset of every node, is the    *)
(* ORACLE for C01-C04, C09-C13.  When a document is finished the reader    *)
(* machine (TexMachine) is run on its source and the MACHINE |= CONTRACT   *)
(* invariants compare the machine's tree with the oracle; the Dump         *)
(* invariant prints source + oracle for the replay into the real code.     *)
(*                                                                         *)
(* The adjacency guards G1..G11 (DESIGN.md 4.2) are the formal content of  *)
(* "well-formed": they keep the *written* structure unambiguous under the  *)
(* documented rules.                                                       *)
(***************************************************************************)
EXTENDS TexMachine, TexContract, Json

CONSTANTS
  TextPool,     \* set of plain text runs (Seq(Char)); may contain escaped symbols
  MathTextPool, \* text runs allowed inside math
  ComPool,      \* set of comment payloads (without the leading %)
  CmdNames,     \* command names outside the signature table
  EnvNames,     \* ordinary environment names
  ListNames,    \* itemize-style environment names
  MathKinds,    \* subset of {"$", "$$", "\\(", "\\["}
  MEnvNames,    \* named math environments
  VerbNames,    \* verbatim-like names (built-in or in UserSkipG)
  VerbBodies,   \* raw bodies
  Leaves,       \* further complete leaf nodes (definitions, zero-argument operators, sizing commands ...)
  Seps,         \* separators that may stand before an argument group (<<>> only: adjacent arguments)
  Labels,       \* item labels (set of Seq(Char)); the empty sequence = no label
  UserSkipG,    \* skip_envs option of the run
  ExtraQueries, \* further names to search for (e.g. names that occur only inside comments / verbatim bodies)
  DollarAdjacent, \* BOOLEAN: switch guard G5 off ("$a$" directly followed by "$": the known finding C12-adjacent-dollar)
  Budget, MaxDepth, MaxSib, MaxArgs

VARIABLES gstack, gn, ast
gvars == <<gstack, gn, ast>>
allvars == <<mvars, gstack, gn, ast>>

(* generator-side nodes carry "pre": characters standing before the node in the source that the     *)
(* parser is entitled to drop (whitespace before an argument group)                                 *)
GN(k, name, kind, s, args, body, pre) ==
  [k |-> k, name |-> name, kind |-> kind, s |-> s, args |-> args, body |-> body, pos |-> 0-1, pre |-> pre]
T(s) == GN("text", <<>>, "T", s, <<>>, <<>>, <<>>)
Com(p) == GN("text", <<>>, "Com", <<"%">> \o p, <<>>, <<>>, <<>>)
Cmd(name, args) == GN("cmd", name, "", <<>>, args, <<>>, <<>>)
Grp(kind, body, pre) == GN("group", <<>>, kind, <<>>, <<>>, body, pre)
Env(name, args, body) == GN("env", name, "", <<>>, args, body, <<>>)
Math(kind, body) == GN("math", <<>>, kind, <<>>, <<>>, body, <<>>)

(* source text of an oracle node = Str with the "pre" of its argument groups *)
RECURSIVE Src(_), SrcSeq(_)
Src(e) == e.pre \o
          (CASE e.k = "text" -> e.s
             [] e.k = "cmd" -> <<"\\">> \o e.name \o SrcSeq(e.args) \o SrcSeq(e.body)
             [] e.k = "env" -> BeginOf(e.name) \o SrcSeq(e.args) \o SrcSeq(e.body) \o EndOf(e.name)
             [] e.k = "math" -> MathBegin(e.kind) \o SrcSeq(e.body) \o MathEnd(e.kind)
             [] OTHER -> <<e.kind>> \o SrcSeq(e.body) \o <<GroupEnd(e.kind)>>)
SrcSeq(s) == IF s = <<>> THEN <<>> ELSE Src(Head(s)) \o SrcSeq(Tail(s))

(* offsets: Place(x, off) sets pos of x (after its pre) and of everything below *)
RECURSIVE Place(_, _), PlaceSeq(_, _)
Place(x, off0) ==
  LET off == off0 + Len(x.pre) IN
  CASE x.k = "text" -> [x EXCEPT !.pos = off]
    [] x.k = "cmd" -> LET a == PlaceSeq(x.args, off + 1 + Len(x.name)) IN
                      [x EXCEPT !.pos = off, !.args = a, !.body = PlaceSeq(x.body, off + 1 + Len(x.name) + Len(SrcSeq(x.args)))]
    [] x.k = "env" -> LET o2 == off + Len(BeginOf(x.name)) IN
                      [x EXCEPT !.pos = off, !.args = PlaceSeq(x.args, o2), !.body = PlaceSeq(x.body, o2 + Len(SrcSeq(x.args)))]
    [] x.k = "math" -> [x EXCEPT !.pos = off, !.body = PlaceSeq(x.body, off + Len(MathBegin(x.kind)))]
    [] OTHER -> [x EXCEPT !.pos = off, !.body = PlaceSeq(x.body, off + 1)]
PlaceSeq(s, off) == IF s = <<>> THEN <<>> ELSE << Place(Head(s), off) >> \o PlaceSeq(Tail(s), off + Len(Src(Head(s))))

(* forget "pre" so that oracle nodes compare with machine nodes *)
RECURSIVE Plain(_)
Plain(x) == Node(x.k, x.name, x.kind, x.s, [i \in 1..Len(x.args) |-> Plain(x.args[i])], [i \in 1..Len(x.body) |-> Plain(x.body[i])], x.pos)
PlainSeq(s) == [i \in 1..Len(s) |-> Plain(s[i])]

(***************************************************************************)
(* Guards                                                                  *)
(***************************************************************************)
First(s) == IF s = <<>> THEN "" ELSE s[1]
Last(its) == its[Len(its)]
IsAttachWs(s) == /\ s # <<>> /\ \A i \in 1..Len(s) : s[i] \in {" ", "\t", "\n", "\r"}
                 /\ Cardinality({i \in 1..Len(s) : s[i] \in {"\n", "\r"}}) <= 1
IsTextNode(x) == x.k = "text" /\ x.kind # "Com"
ZeroArgNames == {<<"c","a","p">>, <<"c","u","p">>, <<"i","n">>, <<"n","o","t","i","n">>, <<"i","n","f","t","y">>, <<"n","o","i","n","d","e","n","t">>}
NKind(as, kind) == Cardinality({i \in 1..Len(as) : as[i].k = "group" /\ as[i].kind = kind})
(* a following group starting with nf would be taken as an argument of x.  A command of the signature  *)
(* table takes exactly its counts: once they are used up a further group is a sibling.                  *)
IsHeadFor(x, nf) == /\ x.k = "cmd" /\ x.name \notin ZeroArgNames
                    /\ ~(x.name \in SigNames /\ (IF nf = "{" THEN NKind(x.args, "{") >= Sig(x.name)[1]
                                                  ELSE NKind(x.args, "[") >= Sig(x.name)[2] /\ NKind(x.args, "{") >= Sig(x.name)[1]))
IsHead(x) == IsHeadFor(x, "[")
IsSizeCmd(x) == x.k = "cmd" /\ x.name \in Punct
RECURSIVE EndsWithName(_)
(* the source of x ends in the letters of a command name (x itself, or its last - bare command - argument) *)
EndsWithName(x) == /\ x.k = "cmd" /\ x.body = <<>> /\ ~IsSizeCmd(x)
                   /\ (x.args = <<>> \/ EndsWithName(x.args[Len(x.args)]))
NoHead == T(<<"#">>)
Anchor(hd, its) ==
  IF its = <<>> THEN hd
  ELSE IF IsTextNode(Last(its)) /\ IsAttachWs(Last(its).s)
       THEN (IF Len(its) = 1 THEN hd ELSE its[Len(its)-1])
       ELSE Last(its)

RECURSIVE TrailBs(_)
TrailBs(s) == IF s # <<>> /\ s[Len(s)] = "\\" THEN 1 + TrailBs(SubSeq(s, 1, Len(s)-1)) ELSE 0
LoneBackslashEnd(s) == TrailBs(s) % 2 = 1
HasTopBracketClose(x) == x.k = "text" /\ \E i \in 1..Len(x.s) : x.s[i] = "]" /\ (i = 1 \/ x.s[i-1] # "\\")
EnvHead == Cmd(<<"h">>, << Grp("{", <<>>, <<>>) >>)           \* stands for "\begin{name}" + arguments
(* a text that starts with attaching whitespace: what counts for attachment is the first character after that prefix *)
RECURSIVE AttachPrefixLen(_, _)
AttachPrefixLen(s, k) == IF k < Len(s) /\ IsAttachWs(SubSeq(s, 1, k + 1)) THEN AttachPrefixLen(s, k + 1) ELSE k
EffFirst(new) == IF IsTextNode(new) THEN (LET k == AttachPrefixLen(new.s, 0) IN IF k < Len(new.s) THEN new.s[k + 1] ELSE "")
                 ELSE First(Src(new))
(* after at least one brace group the run "bracket groups, then brace groups" is over for a bracket that does not follow  *)
(* immediately: '\a{x} [b]' leaves ' [b]' in the text (while '\a{x}[b]' and '\a [b]' attach)                              *)
DetachedBracket(anchor, new) == /\ IsTextNode(new) /\ AttachPrefixLen(new.s, 0) > 0 /\ EffFirst(new) = "["
                                /\ anchor.k = "cmd" /\ anchor # EnvHead /\ anchor.name \notin SigNames /\ NKind(anchor.args, "{") > 0
(* G12: a command that is named like a size prefix (\left, \big, ...) takes a directly following delimiter character into  *)
(* its name: it is only generated in front of something else                                                                *)
(* G13: a fixed-signature command that still lacks a mandatory argument takes the next token as that argument - unless the  *)
(* next token is a comment or a closing brace (or the input ends): only those may follow it                                *)
MissingReq(x) == x.k = "cmd" /\ x.name \in SigNames /\ x.body = <<>>
                 /\ Cardinality({i \in 1..Len(x.args) : ~(x.args[i].k = "group" /\ x.args[i].kind = "[")}) < Sig(x.name)[1]
BareSizePrefix(x) == x.k = "cmd" /\ x.name \in SizePrefix /\ x.args = <<>> /\ x.body = <<>>
DelimFirst == {d[1] : d \in Delims}
CanFollow(fr, new) ==
  LET its == fr.items
      nf == First(Src(new))
      ef == EffFirst(new)
      anchor == Anchor(fr.hd, its)
      prev == IF its = <<>> THEN fr.hd ELSE Last(its)
  IN /\ ~(ef \in {"{", "["} /\ IsHeadFor(anchor, ef) /\ ~DetachedBracket(anchor, new))            \* G1
     /\ ~(EndsWithName(prev) /\ (nf \in Letters \/ nf = "*"))                                     \* G2
     /\ ~(fr.ck = "arg" /\ fr.kind = "[" /\ HasTopBracketClose(new))                              \* G3
     /\ ~(IsTextNode(prev) /\ IsTextNode(new) /\ its # <<>>)                                      \* G8
     /\ ~(prev.k = "text" /\ prev.kind = "Com" /\ ~(IsTextNode(new) /\ nf \in {"\n", "\r"}))         \* G4 (a line break: LF or CR)
     /\ (DollarAdjacent \/ ~(prev.k = "math" /\ prev.kind = "$" /\ nf = "$"))                                         \* G5: "$a$$..." is ambiguous; "$$a$$$b$" is not (longest match)
     /\ ~(IsTextNode(prev) /\ LoneBackslashEnd(prev.s))                                          \* a text run never ends in a lone backslash
     /\ ~(BareSizePrefix(prev) /\ nf \in DelimFirst)                                             \* G12
     /\ ~(its # <<>> /\ MissingReq(prev) /\ ~(new.k = "text" /\ new.kind = "Com"))                \* G13

TopG == gstack[Len(gstack)]
Frame(ck, kind, name, hd) == [ck |-> ck, kind |-> kind, name |-> name, args |-> <<>>, hd |-> hd, items |-> <<>>, pre |-> <<>>]
PushItem(new) == gstack' = [gstack EXCEPT ![Len(gstack)] = [TopG EXCEPT !.items = Append(TopG.items, new)]]
InMath == \E i \in 1..Len(gstack) : gstack[i].ck = "math"
SkipCtx == \A i \in 1..Len(gstack) : gstack[i].ck \in {"root", "env"}                             \* G7
Room == gn < Budget /\ Len(TopG.items) < MaxSib
Gen == phase = "gen"

GInit == /\ gstack = << Frame("root", "", <<>>, NoHead) >> /\ gn = 0 /\ ast = <<>>

LeafPool ==
  {T(s) : s \in TextPool} \cup {Com(p) : p \in ComPool} \cup {Cmd(nm, <<>>) : nm \in CmdNames} \cup Leaves
  \cup {Env(vn, <<>>, << T(b) >>) : vn \in VerbNames, b \in VerbBodies}
MathLeafPool ==
  {T(s) : s \in MathTextPool} \cup {Com(p) : p \in ComPool} \cup {Cmd(nm, <<>>) : nm \in CmdNames}
  \cup {x \in Leaves : x.k = "cmd" /\ x.name \notin Special}
IsVerb(x) == x.k = "env" /\ x.name \in VerbNames

AddLeaf ==
  /\ Gen /\ Room /\ TopG.ck # "list"
  /\ \E new \in (IF InMath THEN MathLeafPool ELSE LeafPool) :
       /\ CanFollow(TopG, new)
       /\ (IsVerb(new) => SkipCtx)
       /\ PushItem(new)
  /\ gn' = gn + 1 /\ UNCHANGED <<ast, mvars>>

(* whitespace between \begin{itemize} and the first \item *)
AddListWs ==
  /\ Gen /\ Room /\ TopG.ck = "list" /\ TopG.items = <<>>
  /\ \E s \in {<<"\n">>, <<" ">>} : s \in TextPool /\ PushItem(T(s))
  /\ gn' = gn + 1 /\ UNCHANGED <<ast, mvars>>

(* open an argument group on the header of the container just opened (environment arguments) or on the   *)
(* last item if it is a plain command: bracket groups first, then brace groups                            *)
HeaderOpen == TopG.ck \in {"env", "list", "math"} /\ TopG.items = <<>> /\ TopG.hd = EnvHead
LastIsCmd == TopG.items # <<>> /\ Last(TopG.items).k = "cmd" /\ Last(TopG.items).name \in CmdNames
OpenArg ==
  /\ Gen /\ gn < Budget /\ Len(gstack) < MaxDepth /\ (HeaderOpen \/ LastIsCmd)
  /\ LET sofar == IF HeaderOpen THEN TopG.args ELSE Last(TopG.items).args IN
     /\ Len(sofar) < MaxArgs
     /\ \E kind \in {"[", "{"} : \E sep \in Seps :
          /\ (kind = "[" => \A i \in 1..Len(sofar) : sofar[i].kind = "[")
          /\ (HeaderOpen => sep = <<>>)     \* header arguments follow the {name} group: outside the bracket-then-brace run shape
          /\ gstack' = Append(gstack, [Frame("arg", kind, <<>>, NoHead) EXCEPT !.pre = sep, !.name = IF HeaderOpen THEN <<"h">> ELSE <<"l">>])
  /\ gn' = gn + 1 /\ UNCHANGED <<ast, mvars>>

OpenCont ==
  /\ Gen /\ Room /\ Len(gstack) < MaxDepth /\ TopG.ck # "list"
  /\ \/ \E nm \in EnvNames : /\ ~InMath /\ CanFollow(TopG, Env(nm, <<>>, <<>>))
                              /\ gstack' = Append(gstack, Frame("env", "", nm, EnvHead))
     \/ \E nm \in ListNames : /\ ~InMath /\ CanFollow(TopG, Env(nm, <<>>, <<>>))
                               /\ gstack' = Append(gstack, Frame("list", "", nm, EnvHead))
     \/ /\ CanFollow(TopG, Grp("{", <<>>, <<>>))
        /\ gstack' = Append(gstack, Frame("group", "{", <<>>, NoHead))
     \/ \E mk \in MathKinds : /\ TopG.ck # "math" /\ (InMath => TopG.ck \in {"arg", "group"})    \* G6: not directly in math; fine inside an argument / group there
                               /\ CanFollow(TopG, Math(mk, <<>>))
                               /\ gstack' = Append(gstack, Frame("math", mk, <<>>, NoHead))
     \/ \E nm \in MEnvNames : /\ ~InMath /\ CanFollow(TopG, Env(nm, <<>>, <<>>))
                               /\ gstack' = Append(gstack, Frame("math", "menv", nm, EnvHead))
  /\ gn' = gn + 1 /\ UNCHANGED <<ast, mvars>>

OpenItem ==
  /\ Gen /\ gn < Budget /\ Len(gstack) < MaxDepth /\ TopG.ck = "list" /\ Len(TopG.items) < MaxSib
  /\ \E lab \in Labels :
       gstack' = Append(gstack, Frame("item", "", <<>>,
                                     IF lab = <<>> THEN Cmd(ItemWord, <<>>)
                                     ELSE Cmd(ItemWord, << Grp("[", << T(lab) >>, <<>>) >>)))
  /\ gn' = gn + 1 /\ UNCHANGED <<ast, mvars>>

LastOK(fr) == IF fr.items = <<>> THEN TRUE
              ELSE /\ ~(Last(fr.items).k = "text" /\ Last(fr.items).kind = "Com")
                   /\ ~(BareSizePrefix(Last(fr.items)) /\ fr.ck \in {"group", "arg"})        \* G12: "\big}" is a sizing command
                   /\ ~(MissingReq(Last(fr.items)) /\ ~(fr.ck = "group" \/ (fr.ck = "arg" /\ fr.kind = "{")))   \* G13: only a closing brace may follow
                   /\ ~(IsTextNode(Last(fr.items)) /\ LoneBackslashEnd(Last(fr.items).s))
(* an item (or list) may end with a command that has no argument only if what follows is not a letter: \end / \item follow, fine *)
Close ==
  /\ Gen /\ Len(gstack) > 1 /\ LastOK(TopG)
  /\ LET fr == TopG
         below == gstack[Len(gstack)-1]
         rest == SubSeq(gstack, 1, Len(gstack)-2)
         node == CASE fr.ck \in {"env", "list"} -> Env(fr.name, fr.args, fr.items)
                   [] fr.ck = "group" -> Grp("{", fr.items, <<>>)
                   [] fr.ck = "math" -> IF fr.kind = "menv" THEN Env(fr.name, fr.args, fr.items) ELSE Math(fr.kind, fr.items)
                   [] fr.ck = "item" -> [fr.hd EXCEPT !.body = fr.items]
                   [] OTHER -> Grp(fr.kind, fr.items, fr.pre)
     IN /\ (fr.ck = "math" /\ fr.kind = "$" => fr.items # <<>>)
        /\ (fr.ck = "list" => \E i \in 1..Len(fr.items) : fr.items[i].k = "cmd")
        /\ IF fr.ck = "arg"
           THEN IF fr.name = <<"h">>
                THEN gstack' = Append(rest, [below EXCEPT !.args = Append(below.args, node)])
                ELSE LET c == Last(below.items)
                         c2 == [c EXCEPT !.args = Append(c.args, node)] IN
                     gstack' = Append(rest, [below EXCEPT !.items = [below.items EXCEPT ![Len(below.items)] = c2]])
           ELSE gstack' = Append(rest, [below EXCEPT !.items = Append(below.items, node)])
  /\ UNCHANGED <<gn, ast, mvars>>

Finish ==
  /\ Gen /\ Len(gstack) = 1 /\ TopG.items # <<>>
  /\ ~(IsTextNode(Last(TopG.items)) /\ LoneBackslashEnd(Last(TopG.items).s))
  /\ ast' = PlaceSeq(TopG.items, 0)
  /\ ResetRun(SrcSeq(TopG.items), 0, UserSkipG)
  /\ UNCHANGED <<gstack, gn>>

GNext == \/ AddLeaf \/ AddListWs \/ OpenArg \/ OpenCont \/ OpenItem \/ Close \/ Finish
         \/ (MNext /\ UNCHANGED gvars)
GSpec == MInit /\ GInit /\ [][GNext]_allvars

(***************************************************************************)
(* Oracle-derived expectations                                             *)
(***************************************************************************)
Oracle == PlainSeq(ast)
ORoot == RootNode(Oracle)
MRoot == RootNode(root)
PosOf(xs) == [i \in 1..Len(xs) |-> xs[i].pos]
NonText(xs) == SelectSeq(xs, NotText)
RECURSIVE NameSet(_)
NameSet(xs) == IF xs = <<>> THEN {} ELSE (IF Head(xs).k \in {"cmd", "env"} THEN {Head(xs).name} ELSE {}) \cup NameSet(Tail(xs))
AllNodes(r) == NodesSeq(r.body)
SearchRoots(r) == << r >> \o NonText(Descendants(r))
Absent == <<"z","z","q">>
Queries(r) == LET ns == NonText(AllNodes(r)) IN
              NameSet(ns) \cup {Absent} \cup ExtraQueries
              \cup {Str(x) : x \in {ns[i] : i \in {j \in 1..Len(ns) : ns[j].k = "cmd" /\ ns[j].args # <<>>}}}
              \cup {BeginOf(x.name) : x \in {ns[i] : i \in {j \in 1..Len(ns) : ns[j].k = "env"}}}
              \cup {BeginOf(x.name) \o StrSeq(x.args) : x \in {ns[i] : i \in {j \in 1..Len(ns) : ns[j].k = "env" /\ ns[j].args # <<>>}}}
              \cup {BeginOf(x.name) \o Str(x.args[1]) : x \in {ns[i] : i \in {j \in 1..Len(ns) : ns[j].k = "env" /\ Len(ns[j].args) > 1}}}
              \cup {MathBegin(x.kind) : x \in {ns[i] : i \in {j \in 1..Len(ns) : ns[j].k = "math"}}}
              \* names that are not spelled in the source: math / displaymath / BraceGroup / BracketGroup, and the closing delimiters
              \cup {NameOf(x) : x \in {ns[i] : i \in {j \in 1..Len(ns) : ns[j].k \in {"math", "group"}}}}
              \cup {CloseOf(x) : x \in {ns[i] : i \in {j \in 1..Len(ns) : ns[j].k \in {"math", "group"}}}}
RECURSIVE SetToSeq(_)
SetToSeq(S) == IF S = {} THEN <<>> ELSE LET x == CHOOSE y \in S : TRUE IN << x >> \o SetToSeq(S \ {x})
FindTable(r) == LET rs == SearchRoots(r)
                    qs == SetToSeq(Queries(r)) IN
                [i \in 1..Len(rs) |-> [root |-> rs[i].pos, res |-> [j \in 1..Len(qs) |-> [q |-> qs[j], pos |-> PosOf(FindAll(rs[i], qs[j]))]]]]

(***************************************************************************)
(* MACHINE |= CONTRACT on generated documents                              *)
(***************************************************************************)
DoneP == phase = "done"
C01_RoundTrip == DoneP => (outcome = "ok" /\ StrSeq(root) = input)
C01_Slices == (DoneP /\ outcome = "ok") => \A x \in {AllNodes(MRoot)[i] : i \in 1..Len(AllNodes(MRoot))} : (x.pos >= 0 => SliceOK(input, x))
C09_Conserves == (DoneP /\ outcome = "ok") => Conserves(input, StrSeq(root))
C02_Structure == (DoneP /\ outcome = "ok") => AbsSeq(root) = AbsSeq(Oracle)
C03_Search == (DoneP /\ outcome = "ok") =>
                 LET mr == SearchRoots(MRoot)  orr == SearchRoots(ORoot) IN
                 /\ PosOf(mr) = PosOf(orr)
                 /\ \A i \in 1..Len(orr) : \A q \in Queries(ORoot) : PosOf(FindAll(mr[i], q)) = PosOf(FindAll(orr[i], q))
C13_Positions == (DoneP /\ outcome = "ok") =>
                 LET mn == NonText(AllNodes(MRoot))  onn == NonText(AllNodes(ORoot)) IN
                 [i \in 1..Len(mn) |-> <<mn[i].k, mn[i].pos>>] = [i \in 1..Len(onn) |-> <<onn[i].k, onn[i].pos>>]


(* ---- C13: search_regex for a fixed pattern family (literal words; maximal runs c+) over the text view ---- *)
RECURSIVE Occ(_, _, _)
Occ(s, w, k) == IF k + Len(w) > Len(s) THEN <<>>
                ELSE IF SubSeq(s, k+1, k+Len(w)) = w THEN << k >> \o Occ(s, w, k + Len(w)) ELSE Occ(s, w, k+1)
RECURSIVE RunLen(_, _, _)
RunLen(s, c, k) == IF k < Len(s) /\ s[k+1] = c THEN 1 + RunLen(s, c, k+1) ELSE 0
RECURSIVE Runs(_, _, _)
Runs(s, c, k) == IF k >= Len(s) THEN <<>>
                 ELSE LET l == RunLen(s, c, k) IN IF l > 0 THEN << <<k, l>> >> \o Runs(s, c, k + l) ELSE Runs(s, c, k+1)
RegexWords == {<<"a">>, <<"b">>, <<"x">>, <<"b"," ","c">>}
RegexRuns == {"a", "x", " "}
TextLeaves(r) == TextView(r)
WordHits(r, w) == LET ls == TextLeaves(r) IN Flatten([i \in 1..Len(ls) |-> [j \in 1..Len(Occ(ls[i].s, w, 0)) |-> ls[i].pos + Occ(ls[i].s, w, 0)[j]]])
RunHits(r, c) == LET ls == TextLeaves(r) IN Flatten([i \in 1..Len(ls) |-> [j \in 1..Len(Runs(ls[i].s, c, 0)) |-> <<ls[i].pos + Runs(ls[i].s, c, 0)[j][1], Runs(ls[i].s, c, 0)[j][2]>>]])
RegexTable(r) == [w |-> [x \in 1..Len(SetToSeq(RegexWords)) |-> [w |-> SetToSeq(RegexWords)[x], at |-> WordHits(r, SetToSeq(RegexWords)[x])]],
                  r |-> [x \in 1..Len(SetToSeq(RegexRuns)) |-> [c |-> SetToSeq(RegexRuns)[x], at |-> RunHits(r, SetToSeq(RegexRuns)[x])]]]
C13_Regex == (DoneP /\ outcome = "ok") => \A w \in RegexWords : WordHits(MRoot, w) = WordHits(ORoot, w)

RECURSIVE AbsFlat(_), AbsFlatNode(_)
AbsFlatNode(x) == CASE x.k = "text" -> <<(IF x.kind = "Com" THEN "K" ELSE "T"), N2S(Len(x.s))>> \o x.s
                    [] x.k \in {"cmd", "env"} -> <<(IF x.k = "cmd" THEN "C" ELSE "E"), N2S(Len(x.name))>> \o x.name \o <<N2S(Len(x.args))>>
                                                  \o Flatten([i \in 1..Len(x.args) |-> AbsFlat(<< x.args[i] >>)]) \o AbsFlat(x.body)
                    [] x.k = "math" -> <<"M", x.kind>> \o AbsFlat(x.body)
                    [] OTHER -> <<"G", x.kind>> \o AbsFlat(x.body)
AbsFlat(s) == LET m == Merge(s) IN <<N2S(Len(m))>> \o Flatten([i \in 1..Len(m) |-> AbsFlatNode(m[i])])

NodeTable(r) == LET ns == NonText(AllNodes(r)) IN [i \in 1..Len(ns) |-> <<ns[i].k, N2S(ns[i].pos), N2S(Len(Str(ns[i])))>>]
GRec == [i |-> input, o |-> outcome, out |-> Out, flat |-> FlatSeq(root), abs |-> AbsFlat(AbsSeq(Oracle)),
         nodes |-> NodeTable(ORoot), find |-> FindTable(ORoot), rx |-> RegexTable(ORoot), steps |-> steps]
GDump == DoneP => PrintT(ToJson(GRec))
GCount == DoneP => PrintT(<<"DOC", Len(input)>>)
=============================================================================

----------------------------- MODULE TexContract -----------------------------
(***************************************************************************)
(* CONTRACT layer: what the properties state, as pure operators over       *)
(* sources, outputs and trees.  These operators never mention the machine; *)
(* they are evaluated (by TLC) both on what the machine produces           *)
(* (MACHINE |= CONTRACT) and on what the real code was observed to         *)
(* produce (CODE |= CONTRACT, trace validation).                           *)
(***************************************************************************)
EXTENDS TexTree

WsC(c) == c \in {" ", "\t", "\n", "\r"}
RECURSIVE WsRunEnd(_, _)
WsRunEnd(sq, i) == IF i <= Len(sq) /\ WsC(sq[i]) THEN WsRunEnd(sq, i+1) ELSE i

NoIgn(s) == \A i \in 1..Len(s) : Cat(s[i]) # "Ign"

(* C08: b consists of exactly the characters of a, in order, except that a *)
(* whitespace run of a standing directly before "{" or "[" may be missing. *)
RECURSIVE Align(_, _, _, _)
Align(a, b, i, j) ==
  IF i > Len(a) THEN j > Len(b)
  ELSE \/ (j <= Len(b) /\ a[i] = b[j] /\ Align(a, b, i+1, j+1))
       \/ (WsC(a[i]) /\ LET k == WsRunEnd(a, i) IN k <= Len(a) /\ a[k] \in {"{", "["} /\ Align(a, b, k, j))
Conserves(a, b) == Align(a, b, 1, 1)

(* C07(c): b is a with nothing changed except inserted closers "}" "]"     *)
(* "\end{name}" (and the whitespace normalisation C08 permits).            *)
EndPrefix == <<"\\","e","n","d","{">>
RECURSIVE CloseBrace(_, _, _)
(* index of the brace closing the group opened just before j (balanced), or 0 *)
CloseBrace(b, j, depth) == IF j > Len(b) THEN 0
                           ELSE IF b[j] = "\\" THEN CloseBrace(b, j+2, depth)     \* an escaped character
                           ELSE IF b[j] = "}" THEN (IF depth = 0 THEN j ELSE CloseBrace(b, j+1, depth-1))
                           ELSE IF b[j] = "{" THEN CloseBrace(b, j+1, depth+1)
                           ELSE CloseBrace(b, j+1, depth)
(* index just after an inserted \end{name} starting at j, or 0 *)
EndAt(b, j) == IF j + 4 <= Len(b) /\ SubSeq(b, j, j+4) = EndPrefix
               THEN (LET c == CloseBrace(b, j+5, 0) IN IF c = 0 THEN 0 ELSE c + 1)
               ELSE 0
BeginPrefix == <<"\\","b","e","g","i","n","{">>
Occurs(p, a) == \E st \in 1..(Len(a) - Len(p) + 1) : SubSeq(a, st, st + Len(p) - 1) = p
RECURSIVE AlignIns(_, _, _, _)
AlignIns(a, b, i, j) ==
  \/ (i > Len(a) /\ j > Len(b))
  \/ (i <= Len(a) /\ j <= Len(b) /\ a[i] = b[j] /\ AlignIns(a, b, i+1, j+1))
  \/ (i <= Len(a) /\ WsC(a[i]) /\ LET k == WsRunEnd(a, i) IN k <= Len(a) /\ a[k] \in {"{", "["} /\ AlignIns(a, b, k, j))
  \/ (j <= Len(b) /\ b[j] \in {"}", "]"} /\ AlignIns(a, b, i, j+1))
  \/ (j <= Len(b) /\ b[j] = "\\" /\ LET e == EndAt(b, j) IN e # 0 /\ AlignIns(a, b, i, e))
  \* an inserted \end{name} whose name is not a balanced group by itself (it holds a comment sign or an unmatched brace): accepted
  \* when the input opens exactly that name, i.e. "\begin{" followed by the same characters occurs in the input
  \/ (j + 4 <= Len(b) /\ SubSeq(b, j, j+4) = EndPrefix
      /\ \E k \in (j+5)..Len(b) : /\ b[k] = "}" /\ Occurs(BeginPrefix \o SubSeq(b, j+5, k-1), a)
                                  /\ AlignIns(a, b, i, k+1))
OnlyClosersInserted(a, b) == AlignIns(a, b, 1, 1)


(* C19 on recorded tokens ts = << [p |-> offset, s |-> text], ... >>: they partition src up to       *)
(* dropped NUL/DEL: non-empty, in order, each text is the slice of src at its offset, and every gap  *)
(* between consecutive tokens (and before the first / after the last) consists of NUL/DEL only.      *)
RECURSIVE OnlyIgn(_, _, _)
OnlyIgn(src, a, b) == a >= b \/ (Cat(src[a+1]) = "Ign" /\ OnlyIgn(src, a+1, b))
RECURSIVE TokPart(_, _, _, _)
TokPart(src, ts, i, at) ==
  IF i > Len(ts) THEN OnlyIgn(src, at, Len(src))
  ELSE LET p == ts[i].p  l == Len(ts[i].s) IN
       /\ l > 0 /\ p >= at /\ p + l <= Len(src) /\ SubSeq(src, p+1, p+l) = ts[i].s
       /\ OnlyIgn(src, at, p) /\ TokPart(src, ts, i+1, p + l)
TokensPartition(src, ts) == TokPart(src, ts, 1, 0)

(* slice clause of C01 / C13: the text of a node is the slice of the source at its position *)
SliceOK(src, x) == x.pos >= 0 /\ x.pos + Len(Str(x)) <= Len(src) /\ SubSeq(src, x.pos + 1, x.pos + Len(Str(x))) = Str(x)

(* C04: the navigation views of one node, as relations between the views *)
IsSubseqOf(a, b) == \E f \in [1..Len(a) -> 1..Len(b)] : (\A i \in 1..Len(a) : a[i] = b[f[i]]) /\ (\A i \in 1..(Len(a)-1) : f[i] < f[i+1])
=============================================================================

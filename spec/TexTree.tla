------------------------------ MODULE TexTree ------------------------------
(***************************************************************************)
(* The document tree of TexSoup (data.py) as a value, with its             *)
(* serialisation, navigation views and search.                             *)
(*                                                                         *)
(* Every node is a record  [k, name, kind, s, args, body, pos]             *)
(*   k    \in {"text","cmd","env","math","group"}                          *)
(*   name : Seq(Char)    command / environment name                        *)
(*   kind : for text the token category ("Com" = comment, "str" = plain    *)
(*          Python str), for math one of "$" "$$" "\\(" "\\[",            *)
(*          for group "{" or "["                                           *)
(*   s    : Seq(Char)    the characters of a text leaf                     *)
(*   args, body : Seq(node)                                                *)
(*   pos  : source offset of the first character (-1 = none)               *)
(***************************************************************************)
EXTENDS TexChars, TLC

Node(k, name, kind, s, args, body, p) == [k |-> k, name |-> name, kind |-> kind, s |-> s, args |-> args, body |-> body, pos |-> p]
TextOf(c, s, p) == Node("text", <<>>, c, s, <<>>, <<>>, p)

MathBegin(kind) == CASE kind = "$" -> <<"$">> [] kind = "$$" -> <<"$","$">> [] kind = "\\(" -> <<"\\","(">> [] OTHER -> <<"\\","[">>
MathEnd(kind) == CASE kind = "$" -> <<"$">> [] kind = "$$" -> <<"$","$">> [] kind = "\\(" -> <<"\\",")">> [] OTHER -> <<"\\","]">>
MathName(kind) == CASE kind = "$" -> <<"$">> [] kind = "$$" -> <<"$","$">> [] kind = "\\(" -> <<"m","a","t","h">>
                    [] OTHER -> <<"d","i","s","p","l","a","y","m","a","t","h">>
GroupEnd(kind) == IF kind = "{" THEN "}" ELSE "]"
BeginOf(name) == <<"\\","b","e","g","i","n","{">> \o name \o <<"}">>
EndOf(name) == <<"\\","e","n","d","{">> \o name \o <<"}">>

(* ---- serialisation: TexExpr.__str__ ---- *)
RECURSIVE Str(_), StrSeq(_)
Str(e) == CASE e.k = "text" -> e.s
            [] e.k = "cmd" -> <<"\\">> \o e.name \o StrSeq(e.args) \o StrSeq(e.body)
            [] e.k = "env" -> BeginOf(e.name) \o StrSeq(e.args) \o StrSeq(e.body) \o EndOf(e.name)
            [] e.k = "math" -> MathBegin(e.kind) \o StrSeq(e.body) \o MathEnd(e.kind)
            [] e.k = "group" -> <<e.kind>> \o StrSeq(e.body) \o <<GroupEnd(e.kind)>>
            [] OTHER -> <<"?">>
StrSeq(s) == IF s = <<>> THEN <<>> ELSE Str(Head(s)) \o StrSeq(Tail(s))

(* str.isspace(): non-empty and whitespace only *)
IsWsChar(c) == c \in {" ", "\t", "\n", "\r", "VT", "FF", "U+001C", "U+001D", "U+001E", "U+001F", "U+0085", "U+00A0"}
IsWsSeq(s) == s # <<>> /\ \A i \in 1..Len(s) : IsWsChar(s[i])
IsWsText(x) == x.k = "text" /\ IsWsSeq(x.s)

RECURSIVE Flatten(_)
Flatten(ss) == IF ss = <<>> THEN <<>> ELSE Head(ss) \o Flatten(Tail(ss))
NotWs(x) == ~IsWsText(x)
NotText(x) == x.k # "text"

(* ---- navigation views (TexExpr.all / contents / children; TexNode.descendants / text) ---- *)
ArgContents(a) == IF a.k = "text" THEN <<>> ELSE SelectSeq(a.body, NotWs)
All(n) == Flatten([i \in 1..Len(n.args) |-> ArgContents(n.args[i])]) \o n.body
Contents(n) == SelectSeq(All(n), NotWs)
Children(n) == SelectSeq(Contents(n), NotText)
RECURSIVE Descendants(_)
Descendants(n) == LET cs == Contents(n)
                      ch == SelectSeq(cs, NotText)
                  IN cs \o Flatten([i \in 1..Len(ch) |-> Descendants(ch[i])])
RECURSIVE TextView(_)
TextView(n) == LET cs == Contents(n)
               IN Flatten([i \in 1..Len(cs) |-> IF cs[i].k = "text" THEN << cs[i] >> ELSE TextView(cs[i])])

RootNode(items) == Node("env", <<"[","t","e","x","]">>, "root", <<>>, <<>>, items, 0-1)

(* ---- search (TexExpr.__match__, TexEnv.__match__, TexNode.find_all / find / count) ---- *)
NameOf(x) == CASE x.k \in {"cmd", "env"} -> x.name
               [] x.k = "math" -> MathName(x.kind)
               [] x.k = "group" -> (IF x.kind = "{" THEN <<"B","r","a","c","e","G","r","o","u","p">>
                                    ELSE <<"B","r","a","c","k","e","t","G","r","o","u","p">>)
               [] OTHER -> <<"t","e","x","t">>
OpenOf(x) == CASE x.k = "env" -> BeginOf(x.name) [] x.k = "math" -> MathBegin(x.kind) [] x.k = "group" -> <<x.kind>> [] OTHER -> <<>>
CloseOf(x) == CASE x.k = "env" -> EndOf(x.name) [] x.k = "math" -> MathEnd(x.kind) [] x.k = "group" -> <<GroupEnd(x.kind)>> [] OTHER -> <<>>
HasDelim(q) == \E i \in 1..Len(q) : q[i] \in {"{", "["}
Matches(x, q) ==
  /\ x.k # "text"
  /\ \/ (x.k \in {"env", "math", "group"} /\ q \in {NameOf(x), OpenOf(x) \o StrSeq(x.args), OpenOf(x), CloseOf(x)})
     \/ (IF HasDelim(q) THEN Str(x) = q ELSE NameOf(x) = q)
FindAll(n, q) == SelectSeq(Descendants(n), LAMBDA x : Matches(x, q))
FindAllNames(n, qs) == SelectSeq(Descendants(n), LAMBDA x : x.k # "text" /\ NameOf(x) \in qs)
Count(n, q) == Len(FindAll(n, q))

(* ---- every node of a tree, in document order, with argument groups ---- *)
RECURSIVE Nodes(_), NodesSeq(_)
Nodes(x) == << x >> \o NodesSeq(x.args) \o NodesSeq(x.body)
NodesSeq(s) == IF s = <<>> THEN <<>> ELSE Nodes(Head(s)) \o NodesSeq(Tail(s))

(* ---- abstraction: forget positions and token categories, merge adjacent plain text, drop empty text ---- *)
RECURSIVE AbsSeq(_), AbsNode(_), Merge(_)
AbsNode(x) ==
  IF x.k = "text" THEN Node("text", <<>>, IF x.kind = "Com" THEN "Com" ELSE "T", x.s, <<>>, <<>>, 0-1)
  ELSE Node(x.k, x.name, x.kind, <<>>, [i \in 1..Len(x.args) |-> AbsNode(x.args[i])], AbsSeq(x.body), 0-1)
Merge(s) ==
  IF s = <<>> THEN s
  ELSE IF s[1].k = "text" /\ s[1].s = <<>> THEN Merge(Tail(s))
  ELSE IF Len(s) < 2 THEN s
  ELSE IF s[2].k = "text" /\ s[2].s = <<>> THEN Merge(<< s[1] >> \o SubSeq(s, 3, Len(s)))
  ELSE IF s[1].k = "text" /\ s[1].kind = "T" /\ s[2].k = "text" /\ s[2].kind = "T"
       THEN Merge(<< [s[1] EXCEPT !.s = s[1].s \o s[2].s] >> \o SubSeq(s, 3, Len(s)))
       ELSE << s[1] >> \o Merge(Tail(s))
AbsSeq(s) == Merge([i \in 1..Len(s) |-> AbsNode(s[i])])

(* ---- a flat, unambiguous encoding of a tree (kept small for the JSON dumps; all elements are   ----
   ---- strings so that two encodings can always be compared)                                         ---- *)
N2S(i) == ToString(i)
RECURSIVE Flat(_), FlatSeq(_)
Flat(x) == CASE x.k = "text" -> <<"T", N2S(x.pos), N2S(Len(x.s))>> \o x.s
             [] x.k = "cmd" -> <<"C", N2S(x.pos), N2S(Len(x.name))>> \o x.name \o <<N2S(Len(x.args))>> \o FlatSeq(x.args) \o <<N2S(Len(x.body))>> \o FlatSeq(x.body)
             [] x.k = "env" -> <<"E", N2S(x.pos), N2S(Len(x.name))>> \o x.name \o <<N2S(Len(x.args))>> \o FlatSeq(x.args) \o <<N2S(Len(x.body))>> \o FlatSeq(x.body)
             [] x.k = "math" -> <<"M", N2S(x.pos), x.kind, N2S(Len(x.body))>> \o FlatSeq(x.body)
             [] OTHER -> <<"G", N2S(x.pos), x.kind, N2S(Len(x.body))>> \o FlatSeq(x.body)
FlatSeq(s) == IF s = <<>> THEN <<>> ELSE Flat(Head(s)) \o FlatSeq(Tail(s))
=============================================================================

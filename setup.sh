#!/bin/sh
# Offline setup: parse every specification with SANY; nothing is downloaded or compiled.
HERE="$(cd "$(dirname "$0")" && pwd)"
cd "$HERE" || exit 2
mkdir -p build evidence replays
rc=0
for f in spec/*.tla; do
  out=$(cd spec && java -cp /opt/veriftools/tla/tla2tools.jar:/opt/veriftools/tla/CommunityModules-deps.jar tla2sany.SANY "$(basename "$f")" 2>&1)
  if echo "$out" | grep -q -e 'Semantic errors' -e 'Parse Error' -e 'Fatal errors' -e 'Could not find'; then
    echo "SANY failed on $f"; echo "$out" | tail -20; rc=1
  fi
done
/venv/bin/python -c "import sys; sys.path.insert(0,'/repo'); import TexSoup" || rc=1
exit $rc
